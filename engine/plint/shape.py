"""Shape analysis of tree fix-up code by materialisation (focus) over a local heap.

The abstract heap is a finite set of *materialised* tree nodes plus *summary*
slots: a child link or a parent link that has not been looked at stands for an
arbitrary subtree / context admitted by the data-structure invariant supplied
by the rule (the "domain").  Reading such a link materialises it: the analysis
case-splits over the shapes the invariant allows (NULL / a fresh node whose own
links are summaries again), exactly as the focus operation of parametric shape
analysis does; writes are strong updates on materialised nodes.  Besides the
current heap the pre-state of every materialised node is kept, so that a
domain can compare "before" and "after" (in-order sequence, black heights,
subtree heights) when a path leaves the function or reaches the loop back edge.

Loops are not unrolled: the function entry state IS the loop invariant, a back
edge ends the path and the domain must show that the invariant is
re-established there (induction).  Helper functions of the unit are analysed
inline.  No values are computed from inputs and nothing is executed: nodes are
symbolic, heights are `h + c` offsets against one symbolic base height.

The case splits are explored depth first by re-interpretation with a recorded
choice trail (no state copying).
"""
from .ir import strip_expect, cv, line
from .units import AnalysisBroken

NULL = ("null",)


class Infeasible(Exception):
    """The invariant admits no heap for the choices made on this path."""


class PathEnd(Exception):
    def __init__(self, kind, value=None):
        Exception.__init__(self, kind)
        self.kind = kind
        self.value = value


class Violation(Exception):
    def __init__(self, msg, where=None):
        Exception.__init__(self, msg)
        self.msg = msg
        self.where = where


class Chooser:
    def __init__(self):
        self.trail = []
        self.pos = 0

    def choose(self, options, label=""):
        """options: list of printable alternatives; returns the chosen index."""
        n = len(options)
        if n == 0:
            raise Infeasible()
        if self.pos < len(self.trail):
            idx = self.trail[self.pos][1]
        else:
            self.trail.append([n, 0, label, options])
            idx = 0
        self.pos += 1
        return idx

    def advance(self):
        """Move to the next unexplored combination; False when exhausted."""
        while self.trail and self.trail[-1][1] >= self.trail[-1][0] - 1:
            self.trail.pop()
        if not self.trail:
            return False
        self.trail[-1][1] += 1
        self.pos = 0
        return True

    def restart(self):
        self.pos = 0

    def prefix(self):
        return tuple(t[1] for t in self.trail[:self.pos])

    def describe(self):
        return ["%s=%s" % (t[2], t[3][t[1]]) for t in self.trail[:self.pos] if t[2]]


def _vkey(e):
    loc = e.get("loc") or []
    return (tuple(loc[:2]), e.get("k"), e.get("op"), e.get("callee"))


class Frame:
    def __init__(self, fn):
        self.fn = fn
        self.env = {}
        self.vals = {}


class Interp:
    """Interprets the CFG facts of one function (and the unit-local helpers it calls) over a Heap."""

    def __init__(self, unit, domain, chooser, max_steps=20000):
        self.unit = unit
        self.dom = domain
        self.ch = chooser
        self.steps = 0
        self.max_steps = max_steps
        self.lines = []
        self.depth = 0
        self.top = None
        self.frames = []

    # -- values -------------------------------------------------------------
    @staticmethod
    def truth(v):
        if v == NULL:
            return False
        if v[0] in ("node", "ptr"):
            return True
        if v[0] == "int":
            return v[1] != 0
        raise AnalysisBroken("shape: truth value of %r is not modelled" % (v,))

    def _ptr_eq(self, a, b):
        if a[0] == "ptr" or b[0] == "ptr":
            if a[0] == "ptr" and b[0] == "ptr":
                return a == b
            other = b if a[0] == "ptr" else a
            if other == NULL or other == ("int", 0):
                return False
        for x in (a, b):
            if x[0] not in ("null", "node") and not (x[0] == "int" and x[1] == 0):
                raise AnalysisBroken("shape: pointer comparison of %r and %r is not modelled" % (a, b))
        na = NULL if a[0] == "int" else a
        nb = NULL if b[0] == "int" else b
        return na == nb

    # -- locations ------------------------------------------------------------
    def lval(self, e, fr):
        e = strip_expect(e)
        k = e["k"]
        if k == "cast":
            return self.lval(e["e"], fr)
        if k == "ref":
            if e["decl"] in ("local", "param"):
                return ("var", e["name"])
            raise AnalysisBroken("shape: global %s" % e["name"])
        if k == "un" and e["op"] == "*":
            p = self.ev(e["e"], fr)
            if p == ("rootp",):
                return ("root",)
            if p[0] == "ptr":
                return p[1]
            if p == NULL:
                raise Violation("line %d: NULL pointer dereferenced" % line(e), line(e))
            raise AnalysisBroken("shape: store through %r" % (p,))
        if k == "member":
            if e["arrow"]:
                b = self.ev(e["base"], fr)
                if b == NULL:
                    raise Violation("line %d: NULL pointer dereferenced (->%s)" % (line(e), e["field"]), line(e))
                if b[0] != "node":
                    raise AnalysisBroken("shape: line %d: ->%s applied to %r" % (line(e), e["field"], b))
                return ("fld", b[1], e["field"])
            inner = self.lval(e["base"], fr)
            if inner[0] == "fld" and inner[2] in self.dom.embedded:
                return ("fld", inner[1], e["field"])
            raise AnalysisBroken("shape: line %d: nested member %s" % (line(e), e["field"]))
        if k == "idx" and hasattr(self.dom, "index"):
            return self.dom.index(self, self.ev(e["base"], fr), self.ev(e["i"], fr), line(e))
        raise AnalysisBroken("shape: line %d: lvalue kind %s" % (line(e), k))

    def load(self, loc, fr, e=None):
        if loc[0] == "frame":
            for f_ in self.frames:
                if id(f_) == loc[1]:
                    return f_.env[loc[2]]
            raise AnalysisBroken("shape: dangling pointer to a local")
        if loc[0] == "var":
            if loc[1] not in fr.env:
                raise AnalysisBroken("shape: %s read before assignment in %s" % (loc[1], fr.fn.name))
            return fr.env[loc[1]]
        if loc[0] == "root":
            return self.dom.read_root(self)
        if loc[0] == "slot":
            return self.dom.read_slot(self, loc, line(e) if e else 0)
        if loc[0] == "fld":
            if loc[2] in self.dom.embedded:
                return ("emb", loc[1], loc[2])
            return self.dom.read_field(self, loc[1], loc[2], line(e) if e else 0)
        raise AnalysisBroken("shape: load %r" % (loc,))

    def store(self, loc, v, fr, e=None):
        if loc[0] == "frame":
            for f_ in self.frames:
                if id(f_) == loc[1]:
                    f_.env[loc[2]] = v
                    return
            raise AnalysisBroken("shape: dangling pointer to a local")
        if loc[0] == "var":
            fr.env[loc[1]] = v
        elif loc[0] == "root":
            self.dom.write_root(self, v, line(e) if e else 0)
        elif loc[0] == "slot":
            self.dom.write_slot(self, loc, v, line(e) if e else 0)
        elif loc[0] == "fld":
            self.dom.write_field(self, loc[1], loc[2], v, line(e) if e else 0)
        else:
            raise AnalysisBroken("shape: store %r" % (loc,))

    # -- expressions ----------------------------------------------------------
    def ev(self, e, fr):
        self.steps += 1
        if self.steps > self.max_steps:
            raise AnalysisBroken("shape: step budget exceeded in %s" % fr.fn.name)
        if e is None:
            raise AnalysisBroken("shape: empty expression")
        if e.get("x"):
            key = _vkey(e)
            if key in fr.vals:
                return fr.vals[key]
            key2 = _vkey(strip_expect(e))
            if key2 in fr.vals:
                return fr.vals[key2]
        e0 = e
        e = strip_expect(e)
        k = e["k"]
        c = cv(e)
        if c is not None and k in ("int", "sizeof", "offsetof", "cast", "un", "bin", "cond") and not self._has_ref(e):
            return ("int", c)
        if k == "int":
            return ("int", e.get("v", 0))
        if k == "str":
            return ("str", e.get("v"))
        if k == "ref":
            if e["decl"] == "enumconst":
                return ("int", c)
            if e["decl"] == "func":
                return ("func", e["name"])
            return self.load(self.lval(e, fr), fr, e)
        if k == "cast":
            v = self.ev(e["e"], fr)
            if hasattr(self.dom, "narrow") and v[0] not in ("int", "anyint", "null", "node"):
                t_out = self.unit.types[e["t"]] if e.get("t") is not None else None
                t_in = self.unit.type_of(e["e"])
                if t_out and t_in and t_out.get("w") and t_in.get("w") and t_out["w"] < t_in["w"]:
                    return self.dom.narrow(self, v, t_out["w"], line(e))      # part of the value is dropped: no longer the value itself
            return v
        if k == "member":
            return self.load(self.lval(e, fr), fr, e)
        if k == "idx":
            return self.load(self.lval(e, fr), fr, e)
        if k == "un":
            op = e["op"]
            if op == "*":
                return self.load(self.lval(e, fr), fr, e)
            if op == "&":
                loc = self.lval(e["e"], fr)
                if loc == ("root",):
                    return ("rootp",)
                if loc[0] == "var":
                    return ("ptr", ("frame", id(fr), loc[1]))
                return ("ptr", loc)
            if op in ("pre++", "post++", "pre--", "post--"):
                loc = self.lval(e["e"], fr)
                old = self.load(loc, fr, e)
                if old == ("anyint",):
                    new = old
                elif old[0] == "int":
                    new = ("int", old[1] + (1 if "++" in op else -1))
                else:
                    raise AnalysisBroken("shape: line %d: %s on %r" % (line(e), op, old))
                self.store(loc, new, fr, e)
                return old if op.startswith("post") else new
            v = self.ev(e["e"], fr)
            if op == "!":
                return ("int", int(not self.truth(v)))
            if v[0] != "int":
                raise AnalysisBroken("shape: line %d: unary %s on %r" % (line(e), op, v))
            if op == "-":
                return ("int", -v[1])
            if op == "~":
                return ("int", ~v[1])
            if op == "+":
                return v
            raise AnalysisBroken("shape: line %d: unary %s" % (line(e), op))
        if k == "bin":
            op = e["op"]
            if op in ("&&", "||"):
                l = self.ev(e["l"], fr)
                if op == "&&" and not self.truth(l):
                    return ("int", 0)
                if op == "||" and self.truth(l):
                    return ("int", 1)
                return ("int", int(self.truth(self.ev(e["r"], fr))))
            l = self.ev(e["l"], fr)
            r = self.ev(e["r"], fr)
            if op == ",":
                return r
            if op in ("==", "!="):
                if l[0] == "int" and r[0] == "int":
                    eq = l[1] == r[1]
                elif l[0] == "ptr" or r[0] == "ptr":
                    # the address of a variable or member: never NULL, equal only to itself
                    eq = l == r
                elif hasattr(self.dom, "equal") and (l[0] not in ("null", "node", "int") or r[0] not in ("null", "node", "int")):
                    eq = self.dom.equal(self, l, r, line(e))
                else:
                    eq = self._ptr_eq(l, r)
                return ("int", int(eq if op == "==" else not eq))
            if l == ("anyint",) or r == ("anyint",):
                if op in ("+", "-", "*", "&", "|", "^"):
                    return ("anyint",)
                raise AnalysisBroken("shape: line %d: comparison of a widened counter" % line(e))
            if (l[0] != "int" or r[0] != "int") and hasattr(self.dom, "arith"):
                return self.dom.arith(self, op, l, r, line(e))
            if l[0] != "int" or r[0] != "int":
                raise AnalysisBroken("shape: line %d: %s on %r, %r" % (line(e), op, l, r))
            a, b = l[1], r[1]
            if op == "+":
                return ("int", a + b)
            if op == "-":
                return ("int", a - b)
            if op == "*":
                return ("int", a * b)
            if op == "&":
                return ("int", a & b)
            if op == "|":
                return ("int", a | b)
            if op == "^":
                return ("int", a ^ b)
            if op in ("<", ">", "<=", ">="):
                return ("int", int({"<": a < b, ">": a > b, "<=": a <= b, ">=": a >= b}[op]))
            raise AnalysisBroken("shape: line %d: operator %s" % (line(e), op))
        if k == "asg":
            op = e["op"]
            v = self.ev(e["r"], fr)
            loc = self.lval(e["l"], fr)
            if op != "=":
                old = self.load(loc, fr, e)
                if old[0] != "int" or v[0] != "int":
                    raise AnalysisBroken("shape: line %d: %s on %r, %r" % (line(e), op, old, v))
                if op == "+=":
                    v = ("int", old[1] + v[1])
                elif op == "-=":
                    v = ("int", old[1] - v[1])
                else:
                    raise AnalysisBroken("shape: line %d: operator %s" % (line(e), op))
            self.store(loc, v, fr, e)
            return v
        if k == "cond":
            cval = self.ev(e["c"], fr)
            return self.ev(e["a"] if self.truth(cval) else e["b"], fr)
        if k == "call":
            name = e.get("callee")
            if name in self.unit.functions:
                args = [self.ev(a, fr) for a in e["args"]]
                return self.run_function(self.unit.functions[name], args)
            if hasattr(self.dom, "call"):
                args = [self.ev(a, fr) for a in e["args"]]
                fp = self.ev(e["fnptr"], fr) if name is None and e.get("fnptr") is not None else None
                r = self.dom.call(self, name, fp, args, line(e))
                if r is not None:
                    return r
            raise AnalysisBroken("shape: line %d: call to %s is not modelled" % (line(e), name or "a function pointer"))
        raise AnalysisBroken("shape: line %d: expression kind %s" % (line(e0), k))

    @staticmethod
    def _has_ref(e):
        from .ir import walk
        for n in walk(e, elsewhere=True):
            if n["k"] in ("call", "asg", "member") or (n["k"] == "ref" and n.get("decl") in ("local", "param")):
                return True
        return False

    # -- functions --------------------------------------------------------------
    def run_function(self, fn, args, top=False):
        fr = Frame(fn)
        names = fn.param_names()
        if len(names) != len(args):
            raise AnalysisBroken("shape: %s called with %d arguments" % (fn.name, len(args)))
        for n_, a in zip(names, args):
            fr.env[n_] = a
        if top:
            self.top = fr
        back = set(fn.back_edges())
        if back and not top and not hasattr(self.dom, "at_loop_head"):
            raise AnalysisBroken("shape: helper %s contains a loop" % fn.name)
        bid = fn.entry
        pending = None
        self.depth += 1
        self.frames.append(fr)
        try:
            while True:
                b = fn.blocks[bid]
                for i, s in enumerate(b.stmts):
                    ln = line(s)
                    if ln and top and (not self.lines or self.lines[-1] != ln):
                        self.lines.append(ln)
                    if s["k"] == "decl":
                        if s.get("init") is not None:
                            fr.env[s["name"]] = self.ev(s["init"], fr)
                        continue
                    if s["k"] == "ret":
                        v = self.ev(s["e"], fr) if s.get("e") is not None else ("void",)
                        if top:
                            raise PathEnd("return", v)
                        return v
                    v = self.ev(s, fr)
                    fr.vals[_vkey(s)] = v
                    fr.vals[_vkey(strip_expect(s))] = v
                if bid == fn.exit or not b.succs:
                    if top:
                        raise PathEnd("return", ("void",))
                    return ("void",)
                if len(b.succs) == 1:
                    nxt = b.succs[0][0]
                else:
                    ci = b.term.get("ci", -1) if b.term else -1
                    if ci is None or ci < 0 or ci >= len(b.stmts):
                        raise AnalysisBroken("shape: %s: branch without a condition (block %d)" % (fn.name, bid))
                    cs = b.stmts[ci]
                    cval = fr.vals.get(_vkey(cs))
                    if cval is None:
                        cval = self.ev(cs, fr)
                    nxt = None
                    if any(on.startswith("case:") or on == "default" for (to, on) in b.succs):
                        if cval[0] != "int":
                            raise AnalysisBroken("shape: %s: switch on %r" % (fn.name, cval))
                        want = "case:%d" % cval[1]
                        for (to, on) in b.succs:
                            if on == want:
                                nxt = to
                        if nxt is None:
                            for (to, on) in b.succs:
                                if on == "default":
                                    nxt = to
                        if nxt is None:
                            raise AnalysisBroken("shape: %s: switch value %d has no case and no default" % (fn.name, cval[1]))
                    else:
                        want = "true" if self.truth(cval) else "false"
                        for (to, on) in b.succs:
                            if on == want:
                                nxt = to
                    if nxt is None:
                        raise AnalysisBroken("shape: %s: no %s successor of block %d" % (fn.name, want, bid))
                if (bid, nxt) in back:
                    if hasattr(self.dom, "at_loop_head"):
                        if not self.dom.at_loop_head(self, fr, nxt):
                            raise PathEnd("subsumed", None)
                    else:
                        # induction: the path ends here only if the loop really goes round again; a loop whose condition now
                        # fails (a `done` flag, `node != NULL && !stop`) simply leaves and is checked at its return
                        pending = [body for (h, body) in fn.loops() if h == nxt]
                        pending = pending[0] if pending else set()
                elif pending is not None:
                    if nxt not in pending:
                        pending = None
                    elif not _condition_block(fn.blocks[nxt]):
                        raise PathEnd("backedge", None)
                if pending is not None and (bid, nxt) in back and not _condition_block(fn.blocks[nxt]):
                    raise PathEnd("backedge", None)
                bid = nxt
        finally:
            self.depth -= 1
            self.frames.pop()


def _condition_block(b):
    """A block that only evaluates (part of) a loop condition: it branches and its statements have no side effect."""
    from .ir import walk
    if len(b.succs) < 2:
        return False
    for s_ in b.stmts:
        for n in walk(s_, elsewhere=True):
            if n["k"] in ("asg", "decl", "ret") or (n["k"] == "un" and ("++" in n["op"] or "--" in n["op"])):
                return False
            if n["k"] == "call" and n.get("callee") != "__builtin_expect":
                return False
    return True


def explore(unit, fn, make_domain, max_paths=20000):
    """Enumerate every path of `fn` under every heap the domain's invariant admits.
    make_domain() -> fresh domain object with: embedded, init(interp) -> args, read_field, write_field,
    read_root, write_root, at_return(interp), at_backedge(interp).
    Returns (stats, violations) where violations are (message, line, choices, lines)."""
    ch = Chooser()
    stats = {"paths": 0, "infeasible": 0, "returns": 0, "backedges": 0, "subsumed": 0}
    viol = []
    while True:
        ch.restart()
        dom = make_domain()
        it = Interp(unit, dom, ch)
        try:
            args = dom.init(it)
            it.run_function(fn, args, top=True)
            raise AnalysisBroken("shape: %s fell through" % fn.name)
        except Infeasible:
            stats["infeasible"] += 1
        except PathEnd as pe:
            try:
                if pe.kind == "return":
                    dom.at_return(it, pe.value) if getattr(dom, "wants_value", False) else dom.at_return(it)
                    stats["returns"] += 1
                elif pe.kind == "subsumed":
                    stats["subsumed"] += 1
                else:
                    dom.at_backedge(it)
                    stats["backedges"] += 1
                stats["paths"] += 1
            except Infeasible:
                stats["infeasible"] += 1
            except Violation as v:
                stats["paths"] += 1
                viol.append((v.msg, v.where or (it.lines[-1] if it.lines else fn.loc[0]), ch.describe(), list(it.lines)))
        except Violation as v:
            stats["paths"] += 1
            viol.append((v.msg, v.where or (it.lines[-1] if it.lines else fn.loc[0]), ch.describe(), list(it.lines)))
        if stats["paths"] + stats["infeasible"] > max_paths:
            raise AnalysisBroken("shape: more than %d paths in %s" % (max_paths, fn.name))
        if not ch.advance():
            break
    return stats, viol
