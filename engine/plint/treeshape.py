"""Domains for plint.shape: the red-black and AVL tree invariants as materialisation rules,
and the checks made when a fix-up path returns or reaches its loop back edge."""
from .shape import NULL, Infeasible, Violation
from .units import AnalysisBroken

OPAQUE = ("opaque",)
_LZ = ("lz", "pending")     # replaced by a per-field unique marker in new_node
LZ_CHILD = LZ_UP = LZ_ATTR = _LZ


def is_lz(v):
    return isinstance(v, tuple) and v and v[0] == "lz"


class HVar:
    """The single symbolic base height h >= 0 of a path, with the constraints collected by materialisation."""

    def __init__(self):
        self.lo = 0
        self.fix = None

    def can_eq(self, c):       # h + c == 0
        v = -c
        if self.fix is not None:
            return self.fix == v
        return v >= self.lo

    def can_ge(self, c, k):    # h + c >= k
        if self.fix is not None:
            return self.fix + c >= k
        return True

    def need_eq(self, c):
        if not self.can_eq(c):
            raise Infeasible()
        self.fix = -c

    def need_ge(self, c, k):
        if not self.can_ge(c, k):
            raise Infeasible()
        if self.fix is None:
            self.lo = max(self.lo, k - c)

    def norm(self, e):
        a, c = e
        if a and self.fix is not None:
            return (0, a * self.fix + c)
        return (a, c)

    def show(self, e):
        a, c = self.norm(e)
        if not a:
            return str(c)
        return "h" + ("%+d" % c if c else "")


class TreeDomain:
    """Heap of materialised nodes with pre and current field values; generic link/in-order checks."""
    embedded = ("base",)
    SIDES = ("left", "right")
    attr = None           # name of the balance attribute field

    def __init__(self):
        self.nodes = {}
        self.nid = 0
        self.root_written = None
        self.h = HVar()
        self.N = None

    # -- node creation ---------------------------------------------------------
    def new_node(self, fields, meta):
        self.nid += 1
        i = self.nid
        fields = dict((f, ("lz", i, f) if v == _LZ else v) for f, v in fields.items())
        self.nodes[i] = {"pre": dict(fields), "cur": dict(fields), "meta": dict(meta)}
        return i

    def name(self, i):
        return self.nodes[i]["meta"].get("name", "n%d" % i)

    # -- shape.Interp interface ----------------------------------------------------
    def read_root(self, I):
        if self.root_written is not None:
            return self.root_written
        raise AnalysisBroken("shape: *root is read before it is written")

    def write_root(self, I, v, ln):
        self.root_written = v

    def read_field(self, I, i, f, ln):
        nd = self.nodes[i]
        if f not in nd["cur"]:
            raise AnalysisBroken("shape: line %d: field %s is not modelled" % (ln, f))
        v = nd["cur"][f]
        if v == OPAQUE:
            raise AnalysisBroken("shape: line %d: field %s of %s is read, which the invariant keeps abstract" % (ln, f, self.name(i)))
        if is_lz(v):
            v = self.materialise(I, i, f)
        return v

    def write_field(self, I, i, f, v, ln):
        nd = self.nodes[i]
        if f not in nd["cur"]:
            raise AnalysisBroken("shape: line %d: field %s is not modelled" % (ln, f))
        if v[0] not in ("null", "node", "int"):
            raise AnalysisBroken("shape: line %d: %r stored into %s" % (ln, v, f))
        if v[0] == "int" and f in self.SIDES + ("parent",):
            if v[1] != 0:
                raise AnalysisBroken("shape: line %d: integer stored into a link" % ln)
            v = NULL
        nd["cur"][f] = v

    def set_both(self, i, f, v):
        self.nodes[i]["pre"][f] = v
        self.nodes[i]["cur"][f] = v

    # -- generic structure checks -------------------------------------------------
    def links_consistent(self):
        seen_child = {}
        for i, nd in self.nodes.items():
            for s in self.SIDES:
                v = nd["cur"][s]
                if v[0] == "node":
                    j = v[1]
                    if j == i:
                        raise Violation("%s is its own %s child" % (self.name(i), s))
                    if j in seen_child:
                        raise Violation("%s is linked as a child of both %s and %s" % (self.name(j), self.name(seen_child[j]), self.name(i)))
                    seen_child[j] = i
                    pj = self.nodes[j]["cur"]["parent"]
                    if pj != ("node", i):
                        raise Violation("%s is the %s child of %s but its parent link points to %s" % (
                            self.name(j), s, self.name(i), self.vshow(pj)))
            p = nd["cur"]["parent"]
            if p[0] == "node":
                z = self.nodes[p[1]]["cur"]
                if z["left"] != ("node", i) and z["right"] != ("node", i):
                    raise Violation("the parent link of %s points to %s, which does not have it as a child" % (self.name(i), self.name(p[1])))

    def vshow(self, v):
        if v == NULL:
            return "NULL"
        if v[0] == "node":
            return self.name(v[1])
        if is_lz(v):
            return "(not looked at)"
        return repr(v)

    def tops(self, which):
        return [i for i, nd in self.nodes.items() if nd[which]["parent"] == NULL or is_lz(nd[which]["parent"])]

    def inorder(self, i, which):
        out = []
        seen = set()

        def rec(v, owner, side):
            if v == NULL:
                return
            if is_lz(v):
                out.append(("s", owner, side))
                return
            if v == OPAQUE:
                return
            j = v[1]
            if j in seen:
                raise Violation("the links form a cycle through %s" % self.name(j))
            seen.add(j)
            nd = self.nodes[j][which]
            rec(nd["left"], j, "left")
            out.append(("n", j))
            rec(nd["right"], j, "right")
        rec(("node", i), None, None)
        return out

    def subtree_nodes(self, i, which="cur"):
        return set(a[1] for a in self.inorder(i, which) if a[0] == "n")

    def show_seq(self, seq):
        return " ".join(self.name(a[1]) if a[0] == "n" else "[%s.%s]" % (self.name(a[1]), a[2]) for a in seq)

    def check_top_and_order(self):
        """Common exit check: one tree, hooked to the same context, same in-order sequence.  Returns (A, T, ctx_known_root)."""
        self.links_consistent()
        pre_tops = self.tops("pre")
        if len(pre_tops) != 1:
            raise AnalysisBroken("shape: pre-state has %d tops" % len(pre_tops))
        A = pre_tops[0]
        cur_tops = self.tops("cur")
        if len(cur_tops) != 1:
            raise Violation("after the fix-up %s have no parent: the tree fell apart" % ", ".join(self.name(t) for t in cur_tops)
                            if cur_tops else "after the fix-up no node is the top of the subtree (parent links form a cycle)")
        T = cur_tops[0]
        is_root = self.nodes[A]["pre"]["parent"] == NULL
        if not is_root:
            if T != A or not is_lz(self.nodes[T]["cur"]["parent"]):
                raise Violation("the subtree that hung below an ancestor not looked at now has %s on top with parent %s: the ancestor's child link was not updated" % (
                    self.name(T), self.vshow(self.nodes[T]["cur"]["parent"])))
            if self.root_written is not None:
                raise Violation("*root is overwritten with %s although the rotated subtree is not at the root" % self.vshow(self.root_written))
        else:
            if self.nodes[T]["cur"]["parent"] != NULL:
                raise Violation("the root's parent link was NULL and is now lost for %s" % self.name(T))
            if T != A and self.root_written != ("node", T):
                raise Violation("%s became the root of the tree but *root is %s" % (self.name(T), "not updated" if self.root_written is None else self.vshow(self.root_written)))
            if T == A and self.root_written not in (None, ("node", A)):
                raise Violation("*root is overwritten with %s although %s is still the root" % (self.vshow(self.root_written), self.name(A)))
        sp, sc = self.inorder(A, "pre"), self.inorder(T, "cur")
        if sp != sc:
            raise Violation("the in-order sequence changed from <%s> to <%s>: keys are out of order or a subtree is lost" % (self.show_seq(sp), self.show_seq(sc)))
        return A, T, is_root

    def check_continue_frame(self, I, param):
        """Common back-edge check: the node continued with sits where a pre-ancestor A2 of N sat, nothing outside its subtree changed
        (but the child link that points to it), same in-order sequence below it.  Returns (its id, A2)."""
        v = I.top.env.get(param)
        if v is None or v[0] != "node":
            raise Violation("the fix-up loop continues with %s = %s" % (param, self.vshow(v) if v else "?"))
        n2 = v[1]
        self.links_consistent()
        anc = []
        x = self.N
        while True:
            p = self.nodes[x]["pre"]["parent"]
            if p[0] != "node":
                break
            anc.append(p[1])
            x = p[1]
        ctx = self.nodes[n2]["cur"]["parent"]
        A2 = None
        for a in anc:
            if self.nodes[a]["pre"]["parent"] == ctx:
                A2 = a
        if A2 is None:
            raise Violation("the fix-up loop continues with %s (parent %s), which does not stand where an ancestor of the node it started from stood: no progress towards the root" % (
                self.name(n2), self.vshow(ctx)))
        allowed = None
        if ctx[0] == "node":
            z = self.nodes[ctx[1]]
            for s in self.SIDES:
                if z["pre"][s] == ("node", A2):
                    if z["cur"][s] != ("node", n2):
                        raise Violation("%s took the place of %s but is not linked from %s.%s" % (self.name(n2), self.name(A2), self.name(ctx[1]), s))
                    allowed = (ctx[1], s)
        elif ctx == NULL:
            if n2 != A2 and self.root_written != ("node", n2):
                raise Violation("%s became the root of the tree but *root is %s" % (self.name(n2), "not updated" if self.root_written is None else self.vshow(self.root_written)))
            if n2 == A2 and self.root_written not in (None, ("node", n2)):
                raise Violation("*root is overwritten with %s although %s is still the root" % (self.vshow(self.root_written), self.name(n2)))
        elif n2 != A2:
            raise Violation("%s took the place of %s below an ancestor that was not looked at: its child link cannot have been updated" % (self.name(n2), self.name(A2)))
        if ctx != NULL and self.root_written is not None:
            raise Violation("the loop continues with %s but *root was overwritten" % self.name(n2))
        inside = self.subtree_nodes(n2, "cur")
        for i, x in self.nodes.items():
            if i in inside:
                continue
            for f in x["cur"]:
                if x["cur"][f] != x["pre"][f] and (i, f) != allowed:
                    raise Violation("the loop continues with %s but %s.%s above it was modified" % (self.name(n2), self.name(i), f))
        sp, sc = self.inorder(A2, "pre"), self.inorder(n2, "cur")
        if sp != sc:
            raise Violation("the in-order sequence below %s changed from <%s> to <%s>" % (self.name(n2), self.show_seq(sp), self.show_seq(sc)))
        return n2, A2


# ---------------------------------------------------------------------------------------------------
# red-black
# ---------------------------------------------------------------------------------------------------

class RBDomain(TreeDomain):
    """mode 'remove': N is the root of a subtree whose black height is one short (h against h+1 at its sibling).
       mode 'insert': N is red, its subtree is a valid red-black subtree of black height h; N's parent may be red too."""
    attr = "color"

    def __init__(self, mode, red, black, params):
        TreeDomain.__init__(self)
        self.mode = mode
        self.RED, self.BLACK = red, black
        self.params = params

    def init(self, I):
        if self.mode == "remove":
            # either the black leaf that is about to be unlinked (it counts as already gone: h = 0), or, further up, a black node
            # whose valid subtree has black height h >= 1
            k = I.ch.choose(["leaf being removed", "inner black node"], "N")
            if k == 0:
                self.h.need_eq(0)
                self.N = self.new_node({"left": NULL, "right": NULL, "parent": LZ_UP, "color": ("int", self.BLACK)}, {"name": "N", "nom": 1, "ghost": True})
            else:
                self.h.need_ge(0, 1)
                self.N = self.new_node({"left": LZ_CHILD, "right": LZ_CHILD, "parent": LZ_UP, "color": ("int", self.BLACK)}, {"name": "N", "nom": 1, "deficit": True})
        else:
            self.N = self.new_node({"left": LZ_CHILD, "right": LZ_CHILD, "parent": LZ_UP, "color": ("int", self.RED)}, {"name": "N", "nom": 0})
        return [("node", self.N), ("rootp",)]

    # -- colours and heights ------------------------------------------------------------
    def pre_colour(self, I, i):
        v = self.nodes[i]["pre"]["color"]
        if v == OPAQUE:
            return self.BLACK
        if is_lz(v):
            v = self.materialise(I, i, "color")
        return v[1]

    def is_black_pre(self, I, i):
        return self.pre_colour(I, i) == self.BLACK

    def nom(self, I, i):
        """offset c such that the (nominal) black height of the subtree at i is h + c"""
        m = self.nodes[i]["meta"]
        if "nom" in m:
            return m["nom"]
        m["nom"] = m["below"] + (1 if self.is_black_pre(I, i) else 0)
        return m["nom"]

    def slot_off(self, I, i):
        if self.nodes[i]["meta"].get("deficit"):
            return -1        # N is black and its subtree has black height h (one short of the nominal h + 1)
        return self.nom(I, i) - (1 if self.is_black_pre(I, i) else 0)

    def check_pre(self):
        for i, nd in self.nodes.items():
            c = nd["pre"]["color"]
            if c[0] != "int":
                continue
            red = c[1] == self.RED
            if red and nd["meta"].get("root") and not (self.mode == "insert" and i == self.N):
                raise Infeasible()
            if not red:
                continue
            p = nd["pre"]["parent"]
            if p[0] == "node":
                pc = self.nodes[p[1]]["pre"]["color"]
                if pc[0] == "int" and pc[1] == self.RED and not (self.mode == "insert" and i == self.N):
                    raise Infeasible()

    def materialise(self, I, i, f):
        nd = self.nodes[i]
        if f == "color":
            opts = ["black", "red"]
            k = I.ch.choose(opts, "%s.color" % self.name(i))
            col = self.BLACK if k == 0 else self.RED
            self.set_both(i, "color", ("int", col))
            if "off" in nd["meta"] and col == self.BLACK:
                self.h.need_ge(nd["meta"]["off"], 1)
            self.check_pre()
            return ("int", col)
        if f in self.SIDES:
            c = self.slot_off(I, i)
            opts = []
            if self.h.can_eq(c):
                opts.append("NULL")
            opts.append("node")
            k = I.ch.choose(opts, "%s.%s" % (self.name(i), f))
            if opts[k] == "NULL":
                self.h.need_eq(c)
                self.set_both(i, f, NULL)
                return NULL
            self.h.need_ge(c, 0)
            j = self.new_node({"left": LZ_CHILD, "right": LZ_CHILD, "parent": ("node", i), "color": LZ_ATTR},
                              {"name": "%s%s" % (self.name(i), "l" if f == "left" else "r"), "off": c, "nom": c})
            self.set_both(i, f, ("node", j))
            return ("node", j)
        if f == "parent":
            opts = ["NULL", "left-child", "right-child"]
            k = I.ch.choose(opts, "%s is" % self.name(i))
            if k == 0:
                nd["meta"]["root"] = True
                self.set_both(i, "parent", NULL)
                self.check_pre()
                return NULL
            below = self.nom(I, i)
            side = "left" if k == 1 else "right"
            other = "right" if k == 1 else "left"
            j = self.new_node({side: ("node", i), other: LZ_CHILD, "parent": LZ_UP, "color": LZ_ATTR},
                              {"name": "P" if i == self.N else "G%d" % (self.nid + 1), "below": below})
            self.set_both(i, "parent", ("node", j))
            return ("node", j)
        raise AnalysisBroken("shape: cannot materialise %s" % f)

    def cur_colour(self, I, i):
        v = self.nodes[i]["cur"]["color"]
        if v == OPAQUE:
            return self.BLACK
        if is_lz(v):
            v = self.materialise(I, i, "color")
        if v[0] != "int" or v[1] not in (self.RED, self.BLACK):
            raise Violation("%s has colour value %r, neither red nor black" % (self.name(i), v))
        return v[1]

    def bh(self, I, v, owner=None):
        """black height of the current subtree at value v as (a, c) = a*h + c; raises when the two sides differ"""
        if v == NULL:
            return (0, 0)
        if is_lz(v):
            return self.h.norm((1, self.slot_off(I, owner)))
        i = v[1]
        nd = self.nodes[i]["cur"]
        col = self.cur_colour(I, i)
        if self.nodes[i]["meta"].get("ghost"):
            # the leaf that the caller unlinks right after the fix-up: it counts as an empty subtree
            if nd["left"] != NULL or nd["right"] != NULL:
                raise Violation("something was linked below the leaf that is about to be removed")
            return (0, 0)
        l = self.bh(I, nd["left"], i)
        r = self.bh(I, nd["right"], i)
        l, r = self.h.norm(l), self.h.norm(r)
        if l != r:
            raise Violation("black heights differ below %s: %s on the left, %s on the right" % (self.name(i), self.h.show(l), self.h.show(r)))
        return (l[0], l[1] + (1 if col == self.BLACK else 0))

    def may_be_red_slot(self, I, owner):
        return self.pre_colour(I, owner) != self.RED

    def check_red_red(self, I, ids, top=None, top_ok_red=True):
        for i in ids:
            if self.cur_colour(I, i) != self.RED:
                continue
            nd = self.nodes[i]["cur"]
            for s in self.SIDES:
                v = nd[s]
                if v[0] == "node" and self.cur_colour(I, v[1]) == self.RED:
                    raise Violation("red %s has the red child %s" % (self.name(i), self.name(v[1])))
                if is_lz(v) and self.may_be_red_slot(I, i):
                    raise Violation("%s is red and its %s subtree, which was not inspected, may have a red root" % (self.name(i), s))
            if i == top and not top_ok_red:
                raise Violation("%s is left red at the top of the rearranged subtree, below an ancestor that may be red" % self.name(i))

    def at_return(self, I):
        A, T, is_root = self.check_top_and_order()
        total = self.h.norm(self.bh(I, ("node", T)))
        if not is_root:
            want = self.h.norm((1, self.nom(I, A)))
            if total != want:
                raise Violation("the subtree below the untouched ancestors has black height %s after the fix-up, it must be %s: the black heights of the tree no longer agree" % (
                    self.h.show(total), self.h.show(want)))
        ids = self.subtree_nodes(T, "cur")
        top_ok = True
        if not is_root:
            top_ok = self.pre_colour(I, A) == self.RED
        self.check_red_red(I, ids, T, top_ok)
        if is_root and self.cur_colour(I, T) != self.BLACK:
            raise Violation("the root %s is left red" % self.name(T))

    def at_backedge(self, I):
        n2, A2 = self.check_continue_frame(I, self.params[0])
        got = self.h.norm(self.bh(I, ("node", n2)))
        if self.mode == "remove":
            want = self.h.norm((1, self.nom(I, A2) - 1))
            if got != want:
                raise Violation("the loop continues with %s but the subtree below it has black height %s, not one less than before (%s): the deficit is not what the next iteration assumes" % (
                    self.name(n2), self.h.show(got), self.h.show(want)))
            if self.cur_colour(I, n2) != self.BLACK:
                raise Violation("the loop continues with the red node %s (a red node absorbs the deficit by turning black)" % self.name(n2))
            self.check_red_red(I, self.subtree_nodes(n2, "cur"))
        else:
            want = self.h.norm((1, self.nom(I, A2)))
            if got != want:
                raise Violation("the loop continues with %s but the black height below it changed from %s to %s" % (self.name(n2), self.h.show(want), self.h.show(got)))
            if self.cur_colour(I, n2) != self.RED:
                raise Violation("the loop continues with %s, which is not red" % self.name(n2))
            ids = self.subtree_nodes(n2, "cur") - {n2}
            nd = self.nodes[n2]["cur"]
            for s in self.SIDES:
                v = nd[s]
                if v[0] == "node" and self.cur_colour(I, v[1]) == self.RED:
                    raise Violation("the loop continues with red %s whose child %s is red" % (self.name(n2), self.name(v[1])))
                if is_lz(v) and self.may_be_red_slot(I, n2):
                    raise Violation("the loop continues with red %s whose %s subtree may have a red root" % (self.name(n2), s))
            self.check_red_red(I, ids)


# ---------------------------------------------------------------------------------------------------
# AVL
# ---------------------------------------------------------------------------------------------------

class AVLDomain(TreeDomain):
    """balance_factor = height(left) - height(right), in {-1, 0, 1} for every node of a valid tree.
       mode 'insert': the subtree at N is valid and grew from height h to h+1 (N is the new leaf, or |N.bf| = 1);
                      all ancestors still carry the balance factors of the old heights.
       mode 'remove': the subtree at N (kept abstract) shrank from height h+1 to h; ancestors carry the old factors."""
    attr = "balance_factor"
    BF = "balance_factor"

    def __init__(self, mode, params):
        TreeDomain.__init__(self)
        self.mode = mode
        self.params = params

    def init(self, I):
        if self.mode == "remove":
            k = I.ch.choose(["leaf being removed", "subtree that became lower"], "N")
            if k == 0:
                self.h.need_eq(0)
                self.N = self.new_node({"left": NULL, "right": NULL, "parent": LZ_UP, self.BF: ("int", 0)}, {"name": "N", "old": 1, "ghost": True})
            else:
                self.h.need_ge(0, 1)
                self.N = self.new_node({"left": LZ_CHILD, "right": LZ_CHILD, "parent": LZ_UP, self.BF: LZ_ATTR}, {"name": "N", "old": 1, "off": 0})
        else:
            self.N = self.new_node({"left": LZ_CHILD, "right": LZ_CHILD, "parent": LZ_UP, self.BF: LZ_ATTR}, {"name": "N", "old": 0, "off": 1})
        return [("node", self.N), ("rootp",)]

    # -- pre-state attributes -----------------------------------------------------------
    def pre_bf(self, I, i):
        v = self.nodes[i]["pre"][self.BF]
        if is_lz(v):
            v = self.materialise(I, i, self.BF)
        if v == OPAQUE:
            raise AnalysisBroken("shape: balance factor of the abstract node is needed")
        return v[1]

    def old(self, I, i):
        """offset of the old (pre-operation) height of the subtree at i"""
        m = self.nodes[i]["meta"]
        if "old" not in m:
            self.pre_bf(I, i)
        return m["old"]

    def slot_off(self, I, i, side):
        m = self.nodes[i]["meta"]
        b = self.pre_bf(I, i)
        if "sib" in m:                      # an ancestor: only its sibling-side slot can still be a summary
            return m["sib"]
        off = m["off"]
        heavy = "left" if b > 0 else ("right" if b < 0 else None)
        return off - 1 if (heavy is None or heavy == side) else off - 2

    def materialise(self, I, i, f):
        nd = self.nodes[i]
        m = nd["meta"]
        if f == self.BF:
            opts = ["0", "+1", "-1"]
            k = I.ch.choose(opts, "%s.bf" % self.name(i))
            b = (0, 1, -1)[k]
            if "below" in m:
                side = m["side"]           # the side on which the child it was reached from hangs
                hs = m["below"] - b if side == "left" else m["below"] + b
                self.h.need_ge(hs, 0)
                m["sib"] = hs
                m["old"] = max(m["below"], hs) + 1
            else:
                off = m["off"]
                if i == self.N and self.mode == "insert":
                    if b == 0:
                        self.h.need_eq(0)     # only the freshly linked leaf grows with a zero factor
                    else:
                        self.h.need_ge(0, 1)
                self.h.need_ge(off, 1)
                if b != 0:
                    self.h.need_ge(off - 2, 0)
                m.setdefault("old", off)
            self.set_both(i, self.BF, ("int", b))
            return ("int", b)
        if f in self.SIDES:
            c = self.slot_off(I, i, f)
            opts = []
            if self.h.can_eq(c):
                opts.append("NULL")
            if self.h.can_ge(c, 1):
                opts.append("node")
            k = I.ch.choose(opts, "%s.%s" % (self.name(i), f))
            if opts[k] == "NULL":
                self.h.need_eq(c)
                self.set_both(i, f, NULL)
                return NULL
            self.h.need_ge(c, 1)
            j = self.new_node({"left": LZ_CHILD, "right": LZ_CHILD, "parent": ("node", i), self.BF: LZ_ATTR},
                              {"name": "%s%s" % (self.name(i), "l" if f == "left" else "r"), "off": c})
            self.set_both(i, f, ("node", j))
            return ("node", j)
        if f == "parent":
            opts = ["NULL", "left-child", "right-child"]
            k = I.ch.choose(opts, "%s is" % self.name(i))
            if k == 0:
                self.set_both(i, "parent", NULL)
                return NULL
            below = self.old(I, i)
            side = "left" if k == 1 else "right"
            other = "right" if k == 1 else "left"
            j = self.new_node({side: ("node", i), other: LZ_CHILD, "parent": LZ_UP, self.BF: LZ_ATTR},
                              {"name": "P" if i == self.N else "G%d" % (self.nid + 1), "below": below, "side": side})
            self.set_both(i, "parent", ("node", j))
            return ("node", j)
        raise AnalysisBroken("shape: cannot materialise %s" % f)

    # -- current heights --------------------------------------------------------------------
    def height(self, I, v, owner=None, side=None):
        if v == NULL:
            return (0, 0)
        if is_lz(v):
            return self.h.norm((1, self.slot_off(I, owner, side)))
        i = v[1]
        nd = self.nodes[i]["cur"]
        if self.nodes[i]["meta"].get("ghost"):
            if nd["left"] != NULL or nd["right"] != NULL:
                raise Violation("something was linked below the leaf that is about to be removed")
            return (0, 0)
        l = self.height(I, nd["left"], i, "left")
        r = self.height(I, nd["right"], i, "right")
        l, r = self.h.norm(l), self.h.norm(r)
        if l[0] != r[0]:
            raise Violation("the heights below %s cannot be compared (%s and %s): a subtree was replaced by NULL or the reverse" % (self.name(i), self.h.show(l), self.h.show(r)))
        b = nd[self.BF]
        if is_lz(b):
            b = self.materialise(I, i, self.BF)
        if b[0] != "int":
            raise Violation("%s has balance factor %r" % (self.name(i), b))
        d = l[1] - r[1]
        if b[1] != d:
            raise Violation("%s stores balance factor %d but its subtrees have heights %s and %s (difference %d)" % (self.name(i), b[1], self.h.show(l), self.h.show(r), d))
        if abs(d) > 1:
            raise Violation("%s is left with subtrees of heights %s and %s: the AVL balance is lost" % (self.name(i), self.h.show(l), self.h.show(r)))
        return (l[0], max(l[1], r[1]) + 1)

    def at_return(self, I):
        A, T, is_root = self.check_top_and_order()
        total = self.h.norm(self.height(I, ("node", T)))
        if not is_root:
            want = self.h.norm((1, self.old(I, A)))
            if total != want:
                raise Violation("retracing stops although the subtree below the untouched ancestors now has height %s instead of %s: their balance factors are stale" % (
                    self.h.show(total), self.h.show(want)))

    def at_backedge(self, I):
        n2, A2 = self.check_continue_frame(I, self.params[0])
        got = self.h.norm(self.height(I, ("node", n2)))
        delta = 1 if self.mode == "insert" else -1
        want = self.h.norm((1, self.old(I, A2) + delta))
        if got != want:
            raise Violation("retracing continues above %s but the subtree below it has height %s, the next step assumes %s (old height %s%+d)" % (
                self.name(n2), self.h.show(got), self.h.show(want), self.h.show(self.h.norm((1, self.old(I, A2)))), delta))
