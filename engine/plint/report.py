"""Obligations, verdicts, evidence files, replay files and known findings."""
import hashlib
import json
import os
import re
import time

from .units import AnalysisBroken, VERIF

KNOWN_FILE = os.path.join(VERIF, "KNOWN_FINDINGS.txt")
EVIDENCE_DIR = os.path.join(VERIF, "evidence")


class Ob:
    __slots__ = ("prop", "rule", "unit", "func", "site", "ok", "msg", "where", "path", "info")

    def __init__(self, prop, rule, unit, func, site, ok, msg, where=None, path=None, info=False):
        self.prop = prop
        self.rule = rule
        self.unit = unit
        self.func = func
        self.site = site
        self.ok = ok
        self.msg = msg
        self.where = where
        self.path = path or []
        self.info = info

    def key(self):
        return "%s:%s:%s" % (self.unit, self.func, self.site)

    def as_dict(self):
        return {"property": self.prop, "rule": self.rule, "unit": self.unit, "function": self.func,
                "site": self.site, "status": "discharged" if self.ok else "violated",
                "explanation": self.msg, "where": self.where, "path": self.path}


def load_known():
    known = []
    fixed = []
    if not os.path.exists(KNOWN_FILE):
        return known, fixed
    for ln in open(KNOWN_FILE):
        ln = ln.strip()
        if not ln or ln.startswith("#"):
            continue
        if ln.startswith("known:"):
            m = re.match(r"known:\s+property=(\S+)\s+rule=(\S+)\s+site=(\S+)\s+(.*)$", ln)
            if not m:
                raise AnalysisBroken("malformed line in KNOWN_FINDINGS.txt: " + ln)
            known.append({"property": m.group(1), "rule": m.group(2), "site": m.group(3), "what": m.group(4)})
        elif ln.startswith("fixed:"):
            fixed.append(ln)
    return known, fixed


class Report:
    def __init__(self, prop, tier="quick", repo_label="/repo"):
        self.prop = prop
        self.tier = tier
        self.obs = []
        self.floors = {}
        self.notes = []
        self.units_analysed = set()
        self.functions_analysed = set()
        self.rule_text = {}
        self.assumptions = [
            "clang 14 front end, its constant folder and clang::CFG are trusted",
            "only the Linux x86-64 preprocessing of each unit is analysed (#ifdef branches for other platforms are invisible)",
            "libc / POSIX / GCC builtin semantics come from a fixed summary table in the rule modules",
        ]
        self.t0 = time.time()
        self.extra = {}
        self.repo_label = repo_label

    # -- recording -----------------------------------------------------------
    def rule(self, rid, text):
        self.rule_text[rid] = text

    def saw(self, fn):
        self.units_analysed.add(fn.unit.name)
        self.functions_analysed.add(fn.unit.name + ":" + fn.name)

    def ob(self, rule, fn, site, ok, msg, where=None, path=None, info=False):
        """fn: ir.Function or (unitname, funcname)."""
        if hasattr(fn, "unit"):
            unit, func = fn.unit.name, fn.name
            self.saw(fn)
            if isinstance(where, int):
                where = "%s:%d" % (fn.unit.relpath, where)
            elif isinstance(where, dict):
                loc = where.get("loc") or [0]
                where = "%s:%d" % (fn.unit.relpath, loc[0] if loc else 0)
        else:
            unit, func = fn
            self.units_analysed.add(unit)
        o = Ob(self.prop, rule, unit, func, site, bool(ok), msg, where, path, info)
        self.obs.append(o)
        return o

    def floor(self, rule, n, what=""):
        self.floors[rule] = (n, what)

    def note(self, text):
        self.notes.append(text)

    # -- finishing -----------------------------------------------------------
    def finish(self, write_evidence=True, quiet=False, selftest=None):
        # floors: a rule matching fewer instances than confirmed by hand is broken
        counts = {}
        for o in self.obs:
            counts[o.rule] = counts.get(o.rule, 0) + 1
        known, fixed = load_known()
        # (a listed known finding is not a reason to stop counting instances)
        any_violation = any((not o.ok) and (not o.info) and not any(k["property"] == self.prop and k["rule"] == o.rule and k["site"] == o.key() for k in known)
                            for o in self.obs)
        for rule, (n, what) in self.floors.items():
            if counts.get(rule, 0) < n and not any_violation:
                # (with a violation present the missing construct is already reported; the count drop is its consequence)
                raise AnalysisBroken("rule %s matched %d instance(s), floor is %d (%s)" %
                                     (rule, counts.get(rule, 0), n, what))
        violations = []
        known_hits = []
        for o in self.obs:
            if o.ok or o.info:
                continue
            hit = None
            for k in known:
                if k["property"] == self.prop and k["rule"] == o.rule and k["site"] == o.key():
                    hit = k
                    break
            if hit:
                known_hits.append((o, hit))
            else:
                violations.append(o)
        replay_dir = os.path.join(EVIDENCE_DIR, "replay")
        lines = []
        for (o, k) in known_hits:
            lines.append("KNOWN-FINDING: property=%s rule=%s site=%s %s" % (self.prop, o.rule, o.key(), k["what"]))
        for o in violations:
            os.makedirs(replay_dir, exist_ok=True)
            h = hashlib.sha256(o.key().encode()).hexdigest()[:10]
            rp = os.path.join(replay_dir, "%s-%s-%s.json" % (self.prop, o.rule, h))
            with open(rp, "w") as f:
                json.dump(o.as_dict(), f, indent=1)
            lines.append("VIOLATION property=%s replay=%s" % (self.prop, rp))
            lines.append("  rule %s at %s in %s (%s): %s" % (o.rule, o.where or "?", o.func, o.unit, o.msg))
            if o.path:
                lines.append("  path: " + " -> ".join(o.path))
        infos = [o for o in self.obs if o.info and not o.ok]
        for o in infos:
            lines.append("INFO property=%s rule=%s site=%s (not build-selectable here) %s" % (self.prop, o.rule, o.key(), o.msg))
        wall = time.time() - self.t0
        n_ob = len([o for o in self.obs if not o.info])
        n_ok = len([o for o in self.obs if o.ok and not o.info])
        if write_evidence:
            os.makedirs(EVIDENCE_DIR, exist_ok=True)
            samples = []
            seen_rules = set()
            for o in self.obs:
                if o.rule not in seen_rules:
                    seen_rules.add(o.rule)
                    samples.append(o.as_dict())
            for o in violations[:10]:
                samples.append(o.as_dict())
            per_rule = {}
            for o in self.obs:
                d = per_rule.setdefault(o.rule, {"instances": 0, "discharged": 0, "violated": 0,
                                                 "floor": self.floors.get(o.rule, (0, ""))[0],
                                                 "text": self.rule_text.get(o.rule, "")})
                d["instances"] += 1
                if o.ok:
                    d["discharged"] += 1
                else:
                    d["violated"] += 1
            distinct = len(set((o.rule, o.key()) for o in self.obs))
            ev = {
                "property_id": self.prop,
                "tier": self.tier,
                "seed": int(os.environ.get("VERIF_SEED", "0") or 0),
                "level": "other",
                "coverage": {
                    "explanation": "static analysis of %s's current source: %d translation units parsed by clang 14 with the build's flags, "
                                   "%d functions inspected through their control-flow graphs and typed expression trees; "
                                   "%d rule instances (obligations) enumerated, %d discharged, %d known findings, %d violations. "
                                   "Decides the structural clauses listed in rules; does not decide the behavioural remainder (DESIGN.md section 4)."
                                   % (self.repo_label, len(self.units_analysed), len(self.functions_analysed), n_ob, n_ok,
                                      len(known_hits), len(violations)),
                    "obligations": n_ob,
                    "discharged": n_ok,
                    "evaluations": n_ob,
                    "distinct_nontrivial": distinct,
                    "rule": "one obligation per (rule, unit, function, construct); distinct = distinct (rule, site) pairs; "
                            "a rule whose instance count falls below its hand-confirmed floor makes the run ANALYSIS-BROKEN",
                    "rules": per_rule,
                    "units": sorted(self.units_analysed),
                    "functions": len(self.functions_analysed),
                    "samples": samples[:40],
                    "known_findings": [o.key() for (o, k) in known_hits],
                    "informational": [o.as_dict() for o in infos][:20],
                    "notes": self.notes,
                    "exhaustive": True,
                    "checker_cmd": "./check %s --tier %s" % (self.prop, self.tier),
                    "trusted_base": ["clang 14 parser/CFG/constant folder", "POSIX + GCC builtin summary table"],
                },
                "assumptions": self.assumptions,
                "wall_s": round(wall, 3),
                "violations": len(violations),
            }
            if selftest is not None:
                ev["coverage"]["selftest"] = selftest
            ev["coverage"].update(self.extra)
            tmp = os.path.join(EVIDENCE_DIR, "%s.json.tmp" % self.prop)
            with open(tmp, "w") as f:
                json.dump(ev, f, indent=1)
            os.replace(tmp, os.path.join(EVIDENCE_DIR, "%s.json" % self.prop))
        if not quiet:
            for ln in lines:
                print(ln)
            print("%s: %d obligations, %d discharged, %d known finding(s), %d violation(s); %d units, %d functions; %.2fs" %
                  (self.prop, n_ob, n_ok, len(known_hits), len(violations), len(self.units_analysed),
                   len(self.functions_analysed), wall))
        return 1 if violations else 0, violations, known_hits
