"""Checker self-test (thorough tier): mutants that must be reported, neutral
refactors that must not.  Each spec is a small text edit applied to a scratch
copy of /repo's *current* sources (outside /repo and /verif, removed at once);
the property's rules are then run on the copy.  A missed mutant or a flagged
neutral edit means the *checker* is broken (exit 2), never a property verdict.
"""
import os
import shutil
import subprocess
import tempfile
import traceback
from concurrent.futures import ProcessPoolExecutor

from . import units
from .ir import Program
from .report import Report
from .units import AnalysisBroken


def _rename_locals(root, relfile):
    """Behaviour-preserving refactor: every local variable and parameter of every function defined in the file gets
    a new name (fields after -> or . and struct designators are left alone)."""
    import re
    path = os.path.join(root, relfile)
    name = os.path.basename(relfile)
    allu = units.all_units()
    if name not in allu:
        return "unit %s is not analysed" % name
    facts = units.extract(name, allu[name][0], allu[name][1])
    lines = open(path, encoding="utf-8", errors="surrogateescape").read().split("\n")
    for f in facts["functions"]:
        lo, hi = f["loc"]
        names = set(p["name"] for p in f.get("params", []) if p["name"])
        for b in f.get("blocks", []):
            for st in b["stmts"]:
                stack = [st]
                while stack:
                    n = stack.pop()
                    if isinstance(n, dict):
                        if n.get("k") == "decl":
                            names.add(n["name"])
                        stack.extend(v for v in n.values() if isinstance(v, (dict, list)))
                    elif isinstance(n, list):
                        stack.extend(n)
        names = [n for n in names if n and not n.startswith("__")]
        if not names:
            continue
        rx = re.compile(r"(?<![\w>.])(?<!->)(" + "|".join(re.escape(n) for n in sorted(names, key=len, reverse=True)) + r")(?![\w])")
        for i in range(max(lo - 1, 0), min(hi, len(lines))):
            ln = lines[i]
            if ln.lstrip().startswith("#"):
                continue
            # do not touch string literals
            parts = re.split(r'("(?:[^"\\]|\\.)*")', ln)
            for k in range(0, len(parts), 2):
                parts[k] = rx.sub(lambda m: m.group(1) + "_rn", parts[k])
            lines[i] = "".join(parts)
    with open(path, "w", encoding="utf-8", errors="surrogateescape") as fh:
        fh.write("\n".join(lines))
    return None


VERIF = os.path.dirname(os.path.dirname(os.path.dirname(os.path.abspath(__file__))))


SRC_ROOT = None        # development aid (tools/dev_selftest.py): take the tree to edit from another root


def corpus_specs(prop):
    """The kept study material as self-test cases: every seeded change (seeded/<name>/, confirmed to break a property while
    the test suite passes) that this property's rules reported when it was taken must still be reported by them, and every
    behaviour-preserving refactoring written against this property (neutral/<prop>*/rN.diff) must still be silent.  A patch
    that no longer applies to /repo's current sources is skipped, never a failure."""
    import json
    out = []
    try:
        base = json.load(open(os.path.join(VERIF, "corpus_base.json"))).get("patches", {})
    except (OSError, ValueError):
        return out
    sd = os.path.join(VERIF, "seeded")
    for name in sorted(os.listdir(sd)) if os.path.isdir(sd) else []:
        mp, pp = os.path.join(sd, name, "meta.json"), os.path.join(sd, name, "patch.diff")
        if not (os.path.exists(mp) and os.path.exists(pp)):
            continue
        try:
            rules = json.load(open(mp)).get("detected_by", {}).get(prop) or []
        except ValueError:
            continue
        rules = [r for r in rules if r.startswith(prop + ".")]
        if rules and "seeded/%s/patch.diff" % name in base:
            out.append(dict(id="seed:" + name, kind="patch", patch=pp, expect=rules, base=base["seeded/%s/patch.diff" % name]))
    nd = os.path.join(VERIF, "neutral")
    # (the whole-program properties C18 / C20 read every unit, so every set is material for them too; that full cross run is
    # tools/scratch_matrix.py - here each property replays the sets written against it, which keeps the thorough tier bounded)
    for s_ in sorted(os.listdir(nd)) if os.path.isdir(nd) else []:
        if s_[:3] != prop:
            continue
        for f in sorted(os.listdir(os.path.join(nd, s_))):
            if f.endswith(".diff") and "neutral/%s/%s" % (s_, f) in base:
                out.append(dict(id="neutral:%s/%s" % (s_, f[:-5]), kind="patch", patch=os.path.join(nd, s_, f), expect=None, base=base["neutral/%s/%s" % (s_, f)]))
    return out


def _apply(root, spec):
    if spec.get("kind") == "patch":
        import hashlib
        for rel, sha in (spec.get("base") or {}).items():
            p = os.path.join(root, rel)
            if sha is None or not os.path.exists(p) or hashlib.sha256(open(p, "rb").read()).hexdigest() != sha:
                return "%s differs from the tree this patch was validated against" % rel
        r = subprocess.run(["patch", "-p1", "-s", "-f", "--no-backup-if-mismatch", "-d", root, "-i", spec["patch"]],
                           stdout=subprocess.PIPE, stderr=subprocess.STDOUT)
        if r.returncode != 0:
            return "patch does not apply to the current sources"
        return None
    if spec.get("kind") == "rename_locals":
        for f in spec["files"]:
            err = _rename_locals(root, f)
            if err:
                return err
        return None
    edits = spec.get("edits") or [spec]
    for e in edits:
        p = os.path.join(root, e["file"])
        if not os.path.exists(p):
            return "file %s missing" % e["file"]
        s = open(p, encoding="utf-8", errors="surrogateescape").read()
        n = s.count(e["old"])
        if n != e.get("count", 1):
            return "anchor text occurs %d time(s) in %s" % (n, e["file"])
        s = s.replace(e["old"], e["new"])
        with open(p, "w", encoding="utf-8", errors="surrogateescape") as f:
            f.write(s)
    return None


def _one(args):
    prop, modname, spec = args
    import importlib
    mod = importlib.import_module(modname)
    tmp = tempfile.mkdtemp(prefix="plint-st-")
    try:
        shutil.copytree(os.path.join(SRC_ROOT or units.REPO, "src"), os.path.join(tmp, "src"))
        err = _apply(tmp, spec)
        if err:
            return (spec["id"], "skipped", err)
        try:
            facts, allu = units.load_units(repo=tmp)
            prog = Program(facts, allu)
            rep = Report(prop, "thorough", "scratch")
            mod.run(prog, rep)
            rc, viol, known = rep.finish(write_evidence=False, quiet=True)
        except AnalysisBroken as e:
            if spec.get("expect") == "broken":
                return (spec["id"], "ok", "analysis-broken as expected")
            return (spec["id"], "failed", "analysis broken on the edited copy: %s" % str(e)[:300])
        exp = spec.get("expect")
        if exp is None:
            if viol:
                return (spec["id"], "failed", "neutral edit flagged: %s %s: %s" % (viol[0].rule, viol[0].key(), viol[0].msg))
            return (spec["id"], "ok", "neutral edit: silent")
        exps = exp if isinstance(exp, list) else [exp]
        hits = [o for o in viol if o.rule in exps and (spec.get("site") is None or spec["site"] in o.key())]
        exp = "/".join(exps)
        if hits:
            return (spec["id"], "ok", "mutant reported by %s at %s: %s" % (exp, hits[0].where, hits[0].msg[:160]))
        return (spec["id"], "failed", "mutant not reported by %s (violations: %s)" %
                (exp, ", ".join(sorted(set(o.rule for o in viol))) or "none"))
    except Exception:
        return (spec["id"], "failed", "exception: " + traceback.format_exc()[-600:])
    finally:
        shutil.rmtree(tmp, ignore_errors=True)


def run(prop, mod, specs=None, only=None):
    specs = specs if specs is not None else list(getattr(mod, "SELFTEST", []))
    if getattr(mod, "RENAME_LOCALS", None) and not only:
        specs = specs + [dict(id="rename-locals-neutral", kind="rename_locals", files=list(mod.RENAME_LOCALS), expect=None)]
    if not only and os.environ.get("PLINT_CORPUS", "1") != "0":
        specs = specs + corpus_specs(prop)
    if only:
        specs = [s for s in specs if s["id"] in only]
    res = {"mutants": 0, "neutral": 0, "ok": 0, "skipped": [], "failed": [], "details": []}
    if not specs:
        return res
    jobs = [(prop, mod.__name__, s) for s in specs]
    os.environ.setdefault("PLINT_SCRATCH_ID", "st%d" % os.getpid())      # one private scratch fact cache for this run's workers
    nw = max(1, min(int(os.environ.get("PLINT_SELFTEST_WORKERS", "8")), len(jobs)))
    outs = [None] * len(jobs)
    try:
        with ProcessPoolExecutor(max_workers=nw) as ex:
            for k, r in enumerate(ex.map(_one, jobs)):
                outs[k] = r
    except Exception:
        # a worker died (memory pressure when many checks run side by side): finish the remaining cases one by one in this process
        for k, j in enumerate(jobs):
            if outs[k] is None:
                outs[k] = _one(j)
    for spec, (sid, status, msg) in zip(specs, outs):
        if spec.get("expect") is None:
            res["neutral"] += 1
        else:
            res["mutants"] += 1
        res["details"].append({"id": sid, "kind": "neutral" if spec.get("expect") is None else "mutant",
                               "expect": spec.get("expect"), "status": status, "message": msg})
        if status == "ok":
            res["ok"] += 1
        elif status == "skipped":
            res["skipped"].append("%s (%s)" % (sid, msg))
        else:
            res["failed"].append("%s: %s" % (sid, msg))
    # scratch fact cache is disposable
    shutil.rmtree(os.path.join(units.WORK, "facts-st-%s" % os.environ.get("PLINT_SCRATCH_ID", os.getpid())), ignore_errors=True)
    print("self-test %s: %d mutants, %d neutral edits, %d ok, %d skipped, %d failed" %
          (prop, res["mutants"], res["neutral"], res["ok"], len(res["skipped"]), len(res["failed"])))
    for d in res["details"]:
        if d["status"] != "ok":
            print("  [%s] %s: %s" % (d["status"], d["id"], d["message"]))
    return res
