"""Domain for plint.shape: one bucket chain of the hash table (nodes with key / value / next), on top of the list domain.

The table object is symbolic: `table->size` is the value SIZE, `table->table` the bucket array; a subscript is accepted
only when it is a value computed from the key by arithmetic and reduced `% SIZE` (the bucket of the key) - anything else
is an unbounded or foreign index.  The chain of that one bucket is a list with summarised segments, whose invariant is
that keys are unique.  At return the chain is compared with what the map operation gives."""
from .shape import NULL, Violation
from .listshape import ListDomain
from .units import AnalysisBroken


class ChainDomain(ListDomain):
    def __init__(self, spec, seen, nparams):
        ListDomain.__init__(self, spec, seen, nparams)
        self.table = None
        self.slot = None
        self.slot_read = False
        self.table_null = False
        self.nod = {}

    # nodes carry key/value instead of data
    def new_node(self, nxt, is_d=None, new=False):
        self.nid += 1
        i = self.nid
        self.nodes[i] = {"next": nxt, "key": ("key", i), "value": ("value", i), "is_d": is_d, "new": new}
        return i

    def foldable(self, i):
        nd = self.nodes[i]
        return nd["key"] == ("key", i) and nd["value"] == ("value", i)

    def init(self, I):
        k = I.ch.choose(["NULL", "table"], "table")
        extra = [("kparam",), ("vparam",)][:self.nparams - 1]
        if k == 0:
            self.table_null = True
            return [NULL] + extra
        # the table object: a pseudo node holding the array and the size
        self.nid += 1
        self.table = self.nid
        self.nodes[self.table] = {"table": ("arr",), "size": ("tsize",), "is_d": False, "new": False, "next": NULL}
        c = I.ch.choose(["empty bucket", "chain"], "bucket")
        if c == 0:
            self.slot = NULL
        else:
            v = self.fresh_var()
            s = self.new_sum(("s", v), NULL)
            a = self.new_node(("sum", s))
            self.pre = [("n", a), ("s", v)]
            self.slot = ("node", a)
        return [("node", self.table)] + extra

    def extra_roots(self):
        r = {self.table} if self.table else set()
        if self.slot and self.slot[0] == "node":
            r.add(self.slot[1])
        return r

    def foldable_node(self, i):
        return i != self.table

    def check_live(self, i, ln, what):
        ListDomain.check_live(self, i, ln, what)

    # -- symbolic arithmetic: the bucket function ------------------------------------------------
    def arith(self, I, op, l, r, ln):
        tags = set()
        if l[0] in ("bucket", "wrongmod", "offbucket") or r[0] in ("bucket", "wrongmod", "offbucket"):
            return ("offbucket",)          # arithmetic on a reduced index leaves the reduced range
        for v in (l, r):
            if v[0] in ("kparam", "hash"):
                tags.add("key")
            elif v[0] == "int":
                pass
            elif v[0] == "tsize":
                tags.add("size")
            else:
                raise AnalysisBroken("shape: line %d: arithmetic on %r" % (ln, v))
        if op == "%" and l[0] in ("kparam", "hash") and r == ("tsize",):
            return ("bucket",)
        if op == "%" and l[0] in ("kparam", "hash"):
            return ("wrongmod", r)
        if "size" in tags:
            raise AnalysisBroken("shape: line %d: arithmetic on the table size" % ln)
        return ("hash",)

    def narrow(self, I, v, width, ln):
        """a key (or value) converted to a narrower integer: good for hashing, no longer an identity"""
        if v == ("kparam",):
            return ("hash",)
        if v[0] == "key":
            return ("keybits", v[1], width)
        return v

    def index(self, I, base, idx, ln):
        if base != ("arr",):
            raise AnalysisBroken("shape: line %d: subscript of %r" % (ln, base))
        if idx != ("bucket",):
            raise Violation("line %d: the bucket array is subscripted with %s, not with the key's hash reduced modulo table->size: the index can lie outside the array or name another key's bucket" % (
                ln, "a value reduced modulo something else" if idx[0] == "wrongmod" else ("the reduced index changed by further arithmetic" if idx[0] == "offbucket" else repr(idx))), ln)
        return ("slot",)

    def read_slot(self, I, loc, ln):
        return self.slot

    def write_slot(self, I, loc, v, ln):
        if v[0] == "int" and v[1] == 0:
            v = NULL
        if v[0] not in ("null", "node"):
            raise AnalysisBroken("shape: line %d: %r stored into the bucket" % (ln, v))
        self.slot = v

    def equal(self, I, a, b, ln):
        if a[0] == "keybits" or b[0] == "keybits" or (a[0] == "hash" and b[0] in ("key", "hash", "keybits")) or (b[0] == "hash" and a[0] in ("key", "keybits")):
            kb = a if a[0] == "keybits" else b
            raise Violation("line %d: a stored key is compared with the searched key after a conversion to %s bits: two different keys that agree in those bits "
                            "(they always share a bucket) are taken for one key - the second insert overwrites the first, lookups return the other key's value" % (
                                ln, kb[2] if kb[0] == "keybits" else "fewer"), ln)
        if a == b:
            return True
        pair = (a, b) if a[0] == "key" else (b, a)
        if pair[0][0] == "key" and pair[1] == ("kparam",):
            nd = self.nodes.get(pair[0][1])
            if nd is None:
                raise AnalysisBroken("shape: key of a folded node compared")
            if nd["is_d"] is None:
                if any(x["is_d"] is True for x in self.nodes.values()):
                    nd["is_d"] = False          # keys are unique within a chain
                else:
                    nd["is_d"] = I.ch.choose(["another key", "the searched key"], "n%d.key" % pair[0][1]) == 1
            return nd["is_d"]
        # a stored value (or the value argument) compared with a constant: the caller may have stored any pointer pattern,
        # including the all-ones one that doubles as lookup's not-found marker - both outcomes are explored, consistently per path
        pair = (a, b) if a[0] in ("value", "vparam", "kparam") else (b, a)
        # (likewise the searched key: NULL is an ordinary key of this table - both outcomes of a NULL test of it are explored)
        if pair[0][0] in ("value", "vparam", "kparam") and pair[1][0] in ("int", "null"):
            k_ = (pair[0], pair[1])
            if k_ not in self.nod:
                self.nod[k_] = I.ch.choose(["differs from %s" % (pair[1][1] if pair[1][0] == "int" else "NULL"), "equals %s" % (pair[1][1] if pair[1][0] == "int" else "NULL")],
                                           "%s" % (("the value stored in n%d" % pair[0][1]) if pair[0][0] == "value" else ("the value argument" if pair[0][0] == "vparam" else "the searched key"))) == 1
            return self.nod[k_]
        raise AnalysisBroken("shape: line %d: comparison of %r and %r" % (ln, a, b))

    def call(self, I, name, fp, args, ln):
        if name in ("p_malloc0", "p_malloc"):
            if self.item is not None or self.alloc_failed:
                raise AnalysisBroken("shape: second allocation")
            if I.ch.choose(["fails", "succeeds"], "allocation") == 0:
                self.alloc_failed = True
                return NULL
            if name == "p_malloc":
                raise AnalysisBroken("shape: non-zeroing allocation of a chain node")
            self.item = self.new_node(NULL, new=True)
            self.nodes[self.item]["key"] = ("int", 0)
            self.nodes[self.item]["value"] = ("int", 0)
            self.nodes[self.item]["is_d"] = None
            return ("node", self.item)
        return ListDomain.call(self, I, name, fp, args, ln)

    def at_loop_head(self, I, fr, head):
        # the table pseudo node and the allocated item are never folded
        return ListDomain.at_loop_head(self, I, fr, head)

    # -- result -------------------------------------------------------------------------------------
    def known_other(self, a):
        if a[0] == "n":
            return a[1] in self.nodes and self.nodes[a[1]]["is_d"] is False
        return self.nod.get(a[1], False)

    def at_return(self, I, value):
        spec = self.spec
        if value == ("int", 0):
            value = NULL
        if self.table_null:
            if spec == "lookup" and value != NULL:
                raise Violation("lookup in a NULL table returns %r" % (value,))
            if self.item is not None or self.freed:
                raise Violation("a NULL table argument still allocates or releases something")
            return
        pre = list(self.pre)
        got = self.content(self.slot)
        hit = None
        for idx, a in enumerate(pre):
            if a[0] == "n" and a[1] in self.nodes and self.nodes[a[1]]["is_d"] is True:
                hit = idx
        searched_all = all(self.known_other(a) for a in pre)
        if spec == "insert":
            if hit is not None:
                if not self.same(got, pre) or self.item is not None:
                    raise Violation("insert of a key that is present changes the chain from %s to %s (or allocates): the value must be overwritten in place" % (self.show(pre), self.show(got)))
                if self.nodes[pre[hit][1]]["value"] != ("vparam",):
                    raise Violation("insert of a key that is present leaves the value %r in its node, not the new value" % (self.nodes[pre[hit][1]]["value"],))
            else:
                if self.alloc_failed:
                    if not self.same(got, pre):
                        raise Violation("a failed allocation in insert changes the chain")
                elif self.item is None:
                    if not searched_all:
                        return          # returned for another reason before finishing the search: nothing changed?
                    raise Violation("insert of an absent key adds no node")
                else:
                    if not searched_all:
                        raise Violation("insert allocates a node although %s was not compared with the key: a present key would be stored twice" % self.show([a for a in pre if not self.known_other(a)]))
                    it = self.nodes[self.item]
                    if it["key"] != ("kparam",) or it["value"] != ("vparam",):
                        raise Violation("the new node holds key %r and value %r instead of the arguments" % (it["key"], it["value"]))
                    if not (self.same(got, [("n", self.item)] + pre) or self.same(got, pre + [("n", self.item)])):
                        raise Violation("insert of an absent key turns the chain %s into %s, not into the chain plus the new node" % (self.show(pre), self.show(got)))
            if self.freed:
                raise Violation("insert releases a node")
        elif spec == "lookup":
            if not self.same(got, pre) or self.item is not None or self.freed:
                raise Violation("lookup modifies the chain")
            if hit is not None:
                if value != ("value", pre[hit][1]):
                    raise Violation("lookup of a present key returns %r, not the value stored with it" % (value,))
            else:
                if not searched_all:
                    raise Violation("lookup gives up before %s was compared with the key" % self.show([a for a in pre if not self.known_other(a)]))
                if value != ("int", -1):
                    raise Violation("lookup of an absent key returns %r, the documented marker is (ppointer) -1" % (value,))
        elif spec == "remove":
            if hit is not None:
                want = pre[:hit] + pre[hit + 1:]
                if not self.same(got, want):
                    raise Violation("remove turns the chain %s into %s, removing the key's node gives %s" % (self.show(pre), self.show(got), self.show(want)))
                if not self.same(self.freed, [pre[hit]]):
                    raise Violation("remove releases %s, it must release exactly the key's node" % self.show(self.freed))
            else:
                if not self.same(got, pre) or self.freed:
                    raise Violation("remove of a key that was not found changes the chain from %s to %s" % (self.show(pre), self.show(got)))
                if not searched_all:
                    raise Violation("remove gives up before %s was compared with the key" % self.show([a for a in pre if not self.known_other(a)]))
            if self.item is not None:
                raise Violation("remove allocates")
        else:
            raise AnalysisBroken("shape: unknown chain specification %s" % spec)
