"""Generic path-sensitive forward dataflow over a function's CFG.

The state domain is supplied by the rule (any hashable value); the engine
keeps a *set* of states per block (trace partitioning: no joins, so facts the
code itself branches on are never lost), runs to a fixpoint, and remembers one
predecessor per (block, state) so that a witness path can be printed.
"""
from .units import AnalysisBroken


class Flow:
    def __init__(self, fn, init_states, on_stmt, on_edge=None, max_states=20000):
        self.fn = fn
        self.on_stmt = on_stmt
        self.on_edge = on_edge
        self.max_states = max_states
        self.inn = {}      # bid -> {state: parent (bid, state) | None}
        self.out = {}      # bid -> {in_state: [out_states]}
        self.cur = None    # (bid, in_state) being processed (for witnesses)
        self.init_states = list(init_states)

    def run(self):
        fn = self.fn
        work = []
        for s in self.init_states:
            self.inn.setdefault(fn.entry, {})[s] = None
            work.append((fn.entry, s))
        n = 0
        while work:
            bid, st = work.pop()
            n += 1
            if n > self.max_states:
                raise AnalysisBroken("state explosion in %s (%s)" % (fn.name, fn.unit.name))
            b = fn.blocks[bid]
            self.cur = (bid, st)
            cur = [st]
            for i, stmt in enumerate(b.stmts):
                nxt = []
                for s in cur:
                    r = self.on_stmt(s, b, i, stmt)
                    if r is None:
                        nxt.append(s)
                    else:
                        nxt.extend(r)
                # de-duplicate, keep order
                seen = set()
                cur = [x for x in nxt if not (x in seen or seen.add(x))]
                if not cur:
                    break
            self.out.setdefault(bid, {})[st] = cur
            for s in cur:
                for (to, on) in b.succs:
                    s2 = s
                    if self.on_edge is not None:
                        s2 = self.on_edge(s, b, to, on)
                        if s2 is None:
                            continue
                    d = self.inn.setdefault(to, {})
                    if s2 not in d:
                        d[s2] = (bid, st)
                        work.append((to, s2))
        return self

    def states_in(self, bid):
        return list(self.inn.get(bid, {}).keys())

    def exit_states(self):
        """[(pred_block, pred_in_state, state_at_exit)]"""
        res = []
        for s, parent in self.inn.get(self.fn.exit, {}).items():
            res.append((parent, s))
        return res

    def witness(self, bid, st):
        """Block ids from entry to (bid, st)."""
        path = []
        cur = (bid, st)
        guard = 0
        while cur is not None and guard < 10000:
            guard += 1
            path.append(cur[0])
            cur = self.inn.get(cur[0], {}).get(cur[1])
        path.reverse()
        return path

    def witness_lines(self, bid, st):
        fn = self.fn
        out = []
        for b in self.witness(bid, st):
            l = fn.blocks[b].line()
            if l:
                w = "%s:%d" % (fn.unit.relpath, l)
                if not out or out[-1] != w:
                    out.append(w)
        return out
