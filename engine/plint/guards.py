"""A-GUARD: must-hold branch facts along a path.

A fact is (key, op, const) where key is the canonical rendering of an
expression (casts, parentheses and __builtin_expect removed), op one of
== != < <= > >=, or the alias fact (var, '=:', key_of_value).  Facts are
assumed on CFG edges from the terminator condition, killed when an operand is
reassigned or a call is re-evaluated, and used to (a) prune infeasible paths
and (b) evaluate expressions to constants.
"""
from .ir import strip_casts, strip_expect, cv, atoms, walk, NEG


def key(e):
    """Canonical string of an expression: all casts and expect-noise ignored."""
    e = strip_casts(e)
    if e is None:
        return "?"
    k = e["k"]
    if k == "ref":
        return e["name"]
    if k == "int":
        return str(e.get("v", e.get("vs")))
    c = e.get("cv")
    if c is not None and k in ("sizeof", "offsetof", "bin", "un", "cond") and not _has_side_effects(e):
        return str(c)
    if k == "member":
        return key(e["base"]) + ("->" if e["arrow"] else ".") + e["field"]
    if k == "un":
        return e["op"] + "(" + key(e["e"]) + ")"
    if k in ("bin", "asg"):
        return "(" + key(e["l"]) + e["op"] + key(e["r"]) + ")"
    if k == "call":
        c = e.get("callee") or "(*" + key(e.get("fnptr")) + ")"
        return c + "(" + ",".join(key(a) for a in e["args"]) + ")"
    if k == "cond":
        return "(" + key(e["c"]) + "?" + key(e["a"]) + ":" + key(e["b"]) + ")"
    if k == "idx":
        return key(e["base"]) + "[" + key(e["i"]) + "]"
    if k == "sizeof":
        return "sizeof(" + str(e.get("of")) + ")"
    if k == "str":
        return '"' + (e.get("v") or "") + '"'
    if k == "decl":
        return "decl " + e["name"]
    if k == "ret":
        return "return " + (key(e["e"]) if e.get("e") is not None else "")
    return "<" + k + ">"


def _has_side_effects(e):
    for n in walk(e, elsewhere=True):
        if n["k"] in ("call", "asg") or (n["k"] == "un" and ("++" in n["op"] or "--" in n["op"])):
            return True
    return False


def _mentions(k, name):
    # does key string k mention variable `name` as an identifier?
    i = k.find(name)
    n = len(name)
    while i >= 0:
        before = k[i - 1] if i > 0 else " "
        after = k[i + n] if i + n < len(k) else " "
        if not (before.isalnum() or before == "_") and not (after.isalnum() or after == "_"):
            # a field name after -> or . is not the variable
            if not (i >= 2 and k[i - 2:i] == "->") and not (before == "."):
                return True
        i = k.find(name, i + 1)
    return False


def _mentions_path(k, path):
    return path in k


EMPTY = frozenset()


def contradicts(facts, k, op, v):
    for (fk, fop, fv) in facts:
        if fk != k or fop in ("=:", "cmp"):
            continue
        if op == "==":
            if fop == "==" and fv != v:
                return True
            if fop == "!=" and fv == v:
                return True
            if fop == "<" and not (v < fv):
                return True
            if fop == "<=" and not (v <= fv):
                return True
            if fop == ">" and not (v > fv):
                return True
            if fop == ">=" and not (v >= fv):
                return True
        elif op == "!=":
            if fop == "==" and fv == v:
                return True
        elif op in ("<", "<=", ">", ">="):
            if fop == "==":
                if op == "<" and not (fv < v):
                    return True
                if op == "<=" and not (fv <= v):
                    return True
                if op == ">" and not (fv > v):
                    return True
                if op == ">=" and not (fv >= v):
                    return True
            if fop == NEG.get(op) and fv == v:
                return True
    return False


def add_fact(facts, k, op, v):
    """Returns new fact set or None when contradictory."""
    if contradicts(facts, k, op, v):
        return None
    new = set(facts)
    if op == "==":
        # subsumes other facts on k
        new = {f for f in new if not (f[0] == k and f[1] not in ("=:", "cmp"))}
    new.add((k, op, v))
    # propagate through aliases: x =: K  => facts on x also hold on K and vice versa
    derived = []
    for (fk, fop, fv) in facts:
        if fop == "=:":
            if fk == k:
                if contradicts(new, fv, op, v):
                    return None
                if (fv, op, v) not in new:
                    derived.append((fv, op, v))
            elif fv == k:
                if contradicts(new, fk, op, v):
                    return None
                if (fk, op, v) not in new:
                    derived.append((fk, op, v))
        elif fop == "cmp" and fk == k:
            # x was assigned the value of (L op2 C): a fact on x's truth is a fact on L
            truth = None
            if (op == "==" and v == 0):
                truth = False
            elif (op == "!=" and v == 0) or (op == "==" and v == 1):
                truth = True
            if truth is not None:
                (lk, op2, c2) = fv
                d = (lk, op2 if truth else NEG[op2], c2)
                if d not in new:
                    derived.append(d)
                # the value of a comparison is 0 or 1
                if truth and (k, "==", 1) not in new and not (op == "==" and v == 1):
                    derived.append((k, "==", 1))
    res = frozenset(new)
    for (dk, dop, dv) in derived:
        if (dk, dop, dv) in res:
            continue
        res = add_fact(res, dk, dop, dv)
        if res is None:
            return None
    return res


def assume(facts, cond, truth):
    """Refine `facts` with `cond` evaluating to `truth`; None if infeasible."""
    # first: can the condition be evaluated outright?
    val = eval_const(cond, facts)
    if val is not None:
        if bool(val) != bool(truth):
            return None
    f = facts
    for (l, op, r) in atoms(cond, truth):
        rv = cv(r)
        if rv is None:
            rv2 = eval_const(r, f)
            if rv2 is None:
                # relational fact between two symbolic expressions
                k = "(" + key(l) + op + key(r) + ")"
                f2 = add_fact(f, k, "==", 1)
                if f2 is None:
                    return None
                nk = "(" + key(l) + NEG[op] + key(r) + ")"
                f2 = add_fact(f2, nk, "==", 0)
                if f2 is None:
                    return None
                f = f2
                continue
            rv = rv2
        f2 = add_fact(f, key(l), op, rv)
        if f2 is None:
            return None
        f = f2
    return f


def kill_var(facts, name):
    """Forget everything known about variable `name` (it was reassigned)."""
    return frozenset(f for f in facts
                     if not _mentions(f[0], name) and not (f[1] == "=:" and _mentions(str(f[2]), name))
                     and not (f[1] == "cmp" and _mentions(f[2][0], name)))


def kill_path(facts, path):
    """Forget facts mentioning access path `path` (e.g. 'sem->sem_hdl')."""
    return frozenset(f for f in facts
                     if path not in f[0] and not (f[1] == "=:" and path in str(f[2]))
                     and not (f[1] == "cmp" and path in f[2][0]))


def kill_key(facts, k):
    return frozenset(f for f in facts if k not in f[0] and not (f[1] == "=:" and k in str(f[2]))
                     and not (f[1] == "cmp" and k in f[2][0]))


def transfer(facts, stmt, kill_calls=True, heap_kill=True, stable=()):
    """Effect of executing a top-level statement on the fact set.
    `stable`: call keys whose facts survive re-evaluation (scenario analyses)."""
    from .ir import ap
    f = facts
    # 1. re-evaluated calls lose their old facts
    if kill_calls:
        for n in walk(stmt):
            if n["k"] == "call":
                kk = key(n)
                if kk not in stable:
                    f = kill_key(f, kk)
    # 2. assignments (anywhere in the statement), inner first
    nodes = [n for n in walk(stmt)]
    for n in reversed(nodes):
        k = n["k"]
        if k == "asg":
            lhs = strip_casts(n["l"])
            p = ap(lhs)
            if lhs is not None and lhs["k"] == "ref":
                f = kill_var(f, lhs["name"])
            elif p is not None:
                f = kill_path(f, p)
            if n["op"] == "=" and p is not None:
                val = cv(n["r"])
                if val is None:
                    val = eval_const(n["r"], f)
                if val is not None:
                    f = f | {(p, "==", val)}
                else:
                    rk = key(n["r"])
                    rs = strip_casts(n["r"])
                    if rs is not None and rs["k"] == "bin" and rs["op"] in NEG and cv(rs["r"]) is not None:
                        la = strip_casts(rs["l"])
                        if la is not None and la["k"] == "asg":
                            la = strip_casts(la["l"])
                        f = f | {(p, "cmp", (key(la), rs["op"], cv(rs["r"])))}
                    if not _mentions(rk, p.split("-")[0].split(".")[0]) or strip_casts(n["r"])["k"] == "call":
                        f = f | {(p, "=:", rk)}
                        # import facts already known about the value
                        for (fk, fop, fv) in list(f):
                            if fk == rk and fop != "=:":
                                f = f | {(p, fop, fv)}
        elif k == "decl":
            f = kill_var(f, n["name"])
            if n.get("init") is not None:
                val = cv(n["init"])
                if val is None:
                    val = eval_const(n["init"], f)
                if val is not None:
                    f = f | {(n["name"], "==", val)}
                else:
                    f = f | {(n["name"], "=:", key(n["init"]))}
        elif k == "un" and ("++" in n["op"] or "--" in n["op"]):
            lhs = strip_casts(n["e"])
            p = ap(lhs)
            if lhs is not None and lhs["k"] == "ref":
                f = kill_var(f, lhs["name"])
            elif p is not None:
                f = kill_path(f, p)
        elif k == "call" and heap_kill:
            # a call may modify objects passed by address: &x kills x
            for a in n["args"]:
                a2 = strip_casts(a)
                if a2 is not None and a2["k"] == "un" and a2["op"] == "&":
                    p = ap(a2["e"])
                    t = strip_casts(a2["e"])
                    if t is not None and t["k"] == "ref":
                        f = kill_var(f, t["name"])
                    elif p is not None:
                        f = kill_path(f, p)
    return frozenset(f)


def lookup(facts, k):
    for (fk, fop, fv) in facts:
        if fk == k and fop == "==":
            return fv
    return None


# pure library functions whose result is a function of constant arguments
# (filled in by rules from the analysed source, e.g. the errno -> PErrorIO switch)
PURE_FUNCS = {}


def eval_const(e, facts):
    """Evaluate expression to an int under the facts, or None."""
    e = strip_casts(e)
    if e is None:
        return None
    c = cv(e)
    if c is not None and not _has_side_effects(e):
        return c
    k = e["k"]
    kk = key(e)
    v = lookup(facts, kk)
    if v is not None:
        return v
    if k == "call" and e.get("callee") in PURE_FUNCS:
        args = [eval_const(a, facts) for a in e["args"]]
        if all(a is not None for a in args):
            return PURE_FUNCS[e["callee"]](args)
        return None
    if k == "un" and e["op"] == "!":
        x = eval_const(e["e"], facts)
        if x is not None:
            return 0 if x else 1
        # !x with fact x != 0
        ik = key(e["e"])
        for (fk, fop, fv) in facts:
            if fk == ik and fop == "!=" and fv == 0:
                return 0
        return None
    if k == "asg" and e["op"] == "=":
        return eval_const(e["r"], facts)
    if k == "bin":
        op = e["op"]
        if op in NEG:
            lv = eval_const(e["l"], facts)
            rv = eval_const(e["r"], facts)
            if lv is not None and rv is not None:
                return int({"==": lv == rv, "!=": lv != rv, "<": lv < rv, "<=": lv <= rv,
                            ">": lv > rv, ">=": lv >= rv}[op])
            if rv is not None:
                lk = key(e["l"])
                la = strip_casts(e["l"])
                keys = [lk]
                if la is not None and la["k"] == "asg":
                    keys.append(key(la["l"]))
                    keys.append(key(la["r"]))
                for kx in keys:
                    if contradicts(facts, kx, op, rv):
                        return 0
                    if contradicts(facts, kx, NEG[op], rv):
                        return 1
            return None
        if op == "&&":
            # truth values: an operand only known to be non-zero (`socket->blocking != 0`) is true without being a constant
            lt, rt = _truth(e["l"], facts), _truth(e["r"], facts)
            if lt is False or rt is False:
                return 0
            if lt is True and rt is True:
                return 1
            return None
        if op == "||":
            lt, rt = _truth(e["l"], facts), _truth(e["r"], facts)
            if lt is True or rt is True:
                return 1
            if lt is False and rt is False:
                return 0
            return None
        if op in ("&", "|", "^", "+", "-", "*", "<<", ">>"):
            lv = eval_const(e["l"], facts)
            rv = eval_const(e["r"], facts)
            if lv is not None and rv is not None:
                try:
                    return {"&": lv & rv, "|": lv | rv, "^": lv ^ rv, "+": lv + rv, "-": lv - rv, "*": lv * rv,
                            "<<": lv << rv if 0 <= rv < 64 else None, ">>": lv >> rv if 0 <= rv < 64 else None}[op]
                except Exception:
                    return None
            if op == "&" and (lv == 0 or rv == 0):
                return 0
            return None
        return None
    if k == "cond":
        c = eval_const(e["c"], facts)
        if c is None:
            a = eval_const(e["a"], facts)
            b = eval_const(e["b"], facts)
            if a is not None and a == b:
                return a
            return None
        return eval_const(e["a"] if c else e["b"], facts)
    # truthiness facts: x != 0 is not a constant
    return None


def _truth(e, facts):
    v = eval_const(e, facts)
    if v is not None:
        return bool(v)
    if known_nonzero(e, facts):
        return True
    return None


def known_nonzero(e, facts):
    kk = key(e)
    for (fk, fop, fv) in facts:
        if fk == kk:
            if fop == "!=" and fv == 0:
                return True
            if fop == "==" and fv != 0:
                return True
            if fop == ">" and fv >= 0:
                return True
            if fop == ">=" and fv > 0:
                return True
    return False


def edge_assume(facts, block, on):
    """Refine facts along the CFG edge labelled `on` leaving `block`."""
    c = block.cond
    if c is None or on == "":
        return facts
    if on == "true":
        return assume(facts, c, True)
    if on == "false":
        return assume(facts, c, False)
    if on.startswith("case:"):
        try:
            v = int(on[5:])
        except ValueError:
            return facts
        return add_fact(facts, key(c), "==", v)
    if on == "default":
        f = facts
        for (to, o2) in block.succs:
            if o2.startswith("case:"):
                try:
                    v = int(o2[5:])
                except ValueError:
                    continue
                f2 = add_fact(f, key(c), "!=", v)
                if f2 is None:
                    return None
                f = f2
        return f
    return facts
