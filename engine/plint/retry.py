"""Retry discipline of interruptible blocking calls (shared by C19 and C09).

For one call site the analysis starts a fact-carrying flow in the scenario
"this evaluation of the call was interrupted": the call's result equals its
failure value and the error channel POSIX defines for it carries EINTR.  The
scenario facts prune infeasible branches; the obligation is that every
feasible path re-evaluates the same call before it can reach a function exit.
"""
from . import guards
from .flow import Flow
from .ir import calls, strip_casts, root_var, line, walk, show

EINTR = 4

# native -> (failure value, error channel)
#   errno  : returns the failure value and sets errno
#   return : returns the error number itself, errno is NOT set (POSIX clock_nanosleep, pthread_*, posix_*)
SPEC = {
    "sem_wait": (-1, "errno"), "sem_timedwait": (-1, "errno"),
    "sem_open": (0, "errno"),        # SEM_FAILED is ((sem_t *) 0) on Linux
    "shm_open": (-1, "errno"),
    "connect": (-1, "errno"), "accept": (-1, "errno"), "accept4": (-1, "errno"),
    "recv": (-1, "errno"), "recvfrom": (-1, "errno"), "recvmsg": (-1, "errno"),
    "send": (-1, "errno"), "sendto": (-1, "errno"), "sendmsg": (-1, "errno"),
    "poll": (-1, "errno"), "select": (-1, "errno"),
    "nanosleep": (-1, "errno"),
    "clock_nanosleep": (EINTR, "return"),
    "read": (-1, "errno"), "write": (-1, "errno"),
}
ERRNO_GETTERS = ("p_error_get_last_system", "p_error_get_last_net")
# calls whose result only re-encodes the error state of the interrupted call
PURE = {"p_error_get_last_system", "p_error_get_last_net", "p_error_get_io_from_system", "p_error_get_ipc_from_system",
        "p_error_get_last_io", "p_error_get_last_ipc", "__errno_location", "__builtin_expect"}
SLEEPS = {"nanosleep": (0, 1), "clock_nanosleep": (2, 3)}   # (request arg, remainder arg)


def errno_keys():
    ks = [g + "()" for g in ERRNO_GETTERS]
    ks.append("*(__errno_location())")
    return ks


def scenario_facts(facts, call, channel_value, errno_value):
    f = guards.add_fact(facts, guards.key(call), "==", channel_value)
    if f is None:
        return None
    for k in errno_keys():
        f = frozenset(x for x in f if x[0] != k)
        f = f | {(k, "==", errno_value)}
    return f


def check_retry(rep, rule, fn, blk, idx, call, site, need_remaining=False):
    """Returns True when the obligation was discharged."""
    name = call.get("callee")
    failval, channel = SPEC[name]
    errno_val = EINTR if channel == "errno" else 0   # 'return' channel: errno is not set by the call
    res = run_scenario(fn, blk, idx, call, failval, errno_val, need_remaining=need_remaining)
    escapes, retried, req_var, rem_var = res["escapes"], [res["retried"]], res["req_var"], res["rem_var"]
    ok = not escapes and retried[0] > 0
    if ok:
        rep.ob(rule, fn, site, True,
               "%s interrupted (%s = %s): every feasible path re-issues the call%s" %
               (name, "errno" if channel == "errno" else "return value", "EINTR",
                " with the remaining time" if need_remaining and req_var else ""), call)
    else:
        if escapes:
            msg, ln, path = escapes[0]
            chan = "errno == EINTR" if channel == "errno" else "the call returning EINTR (errno is not set by %s)" % name
            rep.ob(rule, fn, site, False,
                   "after %s is interrupted (%s) a path %s at line %d without re-issuing the call" % (name, chan, msg, ln)
                   if "re-issues" not in msg else msg, call, [fn.where(call)] + (path or []))
        else:
            rep.ob(rule, fn, site, False, "%s is never re-issued after an interruption" % name, call)
    return ok


_BEFORE = {}


def facts_before(fn, blk, idx):
    """The guard facts that hold on *every* path from the function's entry to statement idx of blk (the meet of the states reaching it).
    A scenario that must show that something does not happen (no retry) starts from them: `again = FALSE; r = call ();` is only
    known not to loop when the flag's reset is part of the scenario."""
    seen = []

    def on_stmt(st, b, i, stmt):
        if b is blk and i == idx:
            seen.append(st)
        return [guards.transfer(st, stmt)]
    try:
        Flow(fn, [guards.EMPTY], on_stmt, lambda st, b, to, on: guards.edge_assume(st, b, on), max_states=6000).run()
    except Exception:
        return []
    if not seen:
        return []
    common = set(seen[0])
    for st in seen[1:]:
        common &= set(st)
    return [(k, op, v) for (k, op, v) in common if op in ("==", "!=") and isinstance(v, int) and "(" not in k]


def run_scenario(fn, blk, idx, call, failval, errno_val, extra_facts=(), watch=(), need_remaining=False,
                 excuse_other_calls=True, mark=None):
    """Flow from the statement containing `call` in the scenario
    call == failval, errno == errno_val (+ extra facts, which are re-asserted
    as long as nothing assigns their key).  Returns escapes (paths reaching a
    return without re-evaluating the call), the retry count and the watched
    callees reached."""
    name = call.get("callee")
    stable = set(errno_keys()) | set(k for (k, op, v) in extra_facts if "(" in k)
    escapes = []
    retried = [0]
    reached = {}
    watch = set(watch)
    req_var = rem_var = None
    if name in SLEEPS:
        ra, rm = SLEEPS[name]
        if len(call["args"]) > max(ra, rm):
            req_var = root_var(call["args"][ra])
            rem_var = root_var(call["args"][rm])

    def transfer(facts, stmt):
        # errno getters are stable in the scenario until the call is re-issued
        keep = frozenset(f for f in facts if f[0] in stable)
        f2 = guards.transfer(facts, stmt, stable=stable)
        return frozenset(f2 | keep)

    def on_stmt(st, b, i, stmt):
        facts, started, copied = st
        if not started:
            return [st]
        if started == "excused":
            # the path left through the failure of a *different* fallible call: a genuine error, not EINTR surfacing
            if any(c is call for c in calls(stmt)):
                retried[0] += 1
                return []
            if stmt["k"] == "ret":
                return []
        if any(c is call for c in calls(stmt)):
            retried[0] += 1
            if need_remaining and req_var and rem_var and not copied:
                escapes.append(("re-issues %s without taking the remaining time from %s (the full interval is slept again, "
                                "or an unrelated value)" % (name, rem_var), line(stmt), flow.witness_lines(*flow.cur)))
            return []
        for c2 in calls(stmt):
            if c2.get("callee") in watch:
                reached.setdefault(c2.get("callee"), []).append((line(c2), flow.witness_lines(*flow.cur), started))
        if mark is not None and mark(stmt, facts):
            copied = True
        if stmt["k"] == "ret":
            if mark is None or not copied:
                escapes.append(("returns %s" % show(stmt.get("e")) if stmt.get("e") is not None else "returns", line(stmt),
                                flow.witness_lines(*flow.cur)))
            return []
        if need_remaining and req_var and rem_var:
            for n in walk(stmt):
                if n["k"] == "asg" and n["op"] == "=" and root_var(n["l"]) == req_var and root_var(n["r"]) == rem_var:
                    copied = True
        return [(transfer(facts, stmt), started, copied)]

    own = set([guards.key(call)] + errno_keys())

    def on_edge(st, b, to, on):
        facts, started, copied = st
        if not started:
            return st
        f2 = guards.edge_assume(facts, b, on)
        if f2 is None:
            return None
        c = b.cond
        if c is not None and on in ("true", "false") and started is True and excuse_other_calls:
            from .ir import atoms
            for (l, op, r) in atoms(c, on == "true"):
                for n in walk(l):
                    if n["k"] == "call" and n.get("callee") not in PURE and guards.key(n) not in own:
                        started = "excused"
                # the same through a variable that holds the other call's result (`ok = wait (...); if (!ok) return`)
                lv = strip_casts(l)
                if lv is not None and lv["k"] == "ref":
                    for (fk, fop, fv) in facts:
                        if fk == lv["name"] and fop == "=:" and isinstance(fv, str) and "(" in fv and fv.split("(")[0] not in PURE and fv not in own:
                            started = "excused"
        return (f2, started, copied)

    # seed: process the statement that contains the call, then continue from there
    stmt = blk.stmts[idx]
    # what every path to the call has established about plain flags (`received = FALSE; do { r = call (); ... } while (!received)`):
    # without it the loop test is open and the scenario "leaves" a loop that the flag keeps it in
    ck = (id(fn), blk.id, idx)
    if ck not in _BEFORE:
        _BEFORE[ck] = (fn, [f for f in facts_before(fn, blk, idx) if f[0] not in stable and not any(f[0] == k for (k, op, v) in extra_facts)])
    f0 = guards.EMPTY
    for (k, op, v) in _BEFORE[ck][1]:
        f1 = guards.add_fact(f0, k, op, v)
        f0 = f1 if f1 is not None else f0
    f0 = transfer(f0, stmt)
    f0 = scenario_facts(f0, call, failval, errno_val)
    for (k, op, v) in extra_facts:
        f0 = guards.add_fact(f0, k, op, v) if f0 is not None else None
    if f0 is None:
        return {"escapes": [], "retried": 0, "reached": {}, "req_var": None, "rem_var": None, "infeasible": True}
    flow = Flow(fn, [], on_stmt, on_edge)
    # run the rest of the block by hand, then the successors
    cur = [(f0, True, False)]
    dead = False
    for j in range(idx + 1, len(blk.stmts)):
        nxt = []
        flow.cur = (blk.id, None)
        for s in cur:
            nxt.extend(on_stmt(s, blk, j, blk.stmts[j]))
        cur = nxt
    for s in cur:
        for (to, on) in blk.succs:
            s2 = on_edge(s, blk, to, on)
            if s2 is not None:
                flow.init_states.append((to, s2))
    # Flow starts at fn.entry; emulate multiple start points
    starts = flow.init_states
    flow.init_states = []
    work_states = {}
    for (to, s2) in starts:
        flow.inn.setdefault(to, {})[s2] = None
    # custom run: seed worklist
    _run_from(flow, [(to, s2) for (to, s2) in starts])
    return {"escapes": escapes, "retried": retried[0], "reached": reached, "req_var": req_var, "rem_var": rem_var}


def _run_from(flow, seeds):
    fn = flow.fn
    work = list(seeds)
    n = 0
    while work:
        bid, st = work.pop()
        n += 1
        if n > flow.max_states:
            from .units import AnalysisBroken
            raise AnalysisBroken("state explosion in retry analysis of %s" % fn.name)
        b = fn.blocks[bid]
        flow.cur = (bid, st)
        cur = [st]
        for i, stmt in enumerate(b.stmts):
            nxt = []
            for s in cur:
                r = flow.on_stmt(s, b, i, stmt)
                nxt.extend([s] if r is None else r)
            seen = set()
            cur = [x for x in nxt if not (x in seen or seen.add(x))]
            if not cur:
                break
        for s in cur:
            for (to, on) in b.succs:
                s2 = flow.on_edge(s, b, to, on)
                if s2 is None:
                    continue
                d = flow.inn.setdefault(to, {})
                if s2 not in d:
                    d[s2] = (bid, st)
                    work.append((to, s2))
