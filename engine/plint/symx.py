"""Small symbolic evaluator over the CFG facts for loop-free functions (or
loops cut by the caller).  It is *not* a solver-backed symbolic execution: it
builds normalised terms for the values a function stores and returns on each
CFG path, so that rules can compare them with a specification term by
syntactic equality after normalisation (linear constants moved to one side,
commutative operands ordered).

Terms (tuples):
  ('c', n)                 integer constant
  ('p', name)              parameter (initial value)
  ('m0', loc)              initial content of memory location `loc`
  ('addr', name)           address of a local
  ('fld', base, field)     location: field of the object `base` points to
  ('bin', op, a, b)  ('un', op, a)  ('cmp', op, a, b)  ('sel', c, a, b)
  ('trunc', bits, a)       narrowing conversion
  ('call', name, args, n)  result of the n-th unknown call
  ('unk', n)
"""
from .ir import strip_expect, cv
from .units import AnalysisBroken

COMM = {"+", "*", "&", "|", "^", "==", "!="}
CMPNEG = {"==": "!=", "!=": "==", "<": ">=", ">=": "<", ">": "<=", "<=": ">"}


def C(n):
    return ("c", n)


def norm(t):
    """Normalise a term."""
    if not isinstance(t, tuple):
        return t
    k = t[0]
    if k == "bin":
        op, a, b = t[1], norm(t[2]), norm(t[3])
        if a[0] == "c" and b[0] == "c":
            try:
                v = {"+": a[1] + b[1], "-": a[1] - b[1], "*": a[1] * b[1], "&": a[1] & b[1], "|": a[1] | b[1],
                     "^": a[1] ^ b[1]}.get(op)
                if op == "%" and b[1] != 0:
                    v = a[1] % b[1]
                if op == "<<":
                    v = a[1] << b[1]
                if op == ">>":
                    v = a[1] >> b[1]
                if v is not None:
                    return C(v)
            except Exception:
                pass
        if op == "-" and b[0] == "c":
            return norm(("bin", "+", a, C(-b[1])))
        if op == "+":
            # flatten sums: collect terms and constant
            terms, const = _sum_terms(("bin", "+", a, b))
            return _mk_sum(terms, const)
        if op == "-":
            terms, const = _sum_terms(("bin", "-", a, b))
            return _mk_sum(terms, const)
        if op in COMM and repr(a) > repr(b):
            a, b = b, a
        # identities
        for (x, y) in ((a, b), (b, a)):
            if y[0] == "c":
                if y[1] == 0 and op in ("|", "^"):
                    return x
                if y[1] == 0 and op == "&":
                    return C(0)
                if y[1] == 0 and op in ("<<", ">>") and y is b:
                    return x
                if y[1] == 1 and op == "*":
                    return x
        return ("bin", op, a, b)
    if k == "cmp":
        op, a, b = t[1], norm(t[2]), norm(t[3])
        # move constants to the right: (x + c1) op c2 -> x op (c2 - c1)
        ta, ca = _sum_terms(a)
        tb, cb = _sum_terms(b)
        # bring all symbolic terms left, constants right
        terms = list(ta) + [(-s, x) for (s, x) in tb]
        const = cb - ca
        # canonical sign: first term positive
        terms = _merge(terms)
        if not terms:
            v = {"==": 0 == const, "!=": 0 != const, "<": 0 < const, "<=": 0 <= const, ">": 0 > const, ">=": 0 >= const}[op]
            return C(1 if v else 0)
        if terms[0][0] < 0:
            terms = [(-s, x) for (s, x) in terms]
            const = -const
            op = {"<": ">", ">": "<", "<=": ">=", ">=": "<="}.get(op, op)
        lhs = _mk_sum(terms, 0)
        if lhs[0] in ("new", "addr") and const == 0 and op in ("==", "!="):
            return C(0 if op == "==" else 1)     # a fresh allocation (on its success path) / a local's address is not NULL
        if _is_bool(lhs) and op in ("==", "!="):
            # boolean-valued term: (b == 1) <=> (b != 0), (b != 1) <=> (b == 0)
            if const == 1:
                return ("cmp", "!=" if op == "==" else "==", lhs, C(0))
            if const not in (0, 1):
                return C(0 if op == "==" else 1)
        if lhs[0] == "cmp" and op in ("==", "!="):
            # (cmp) != 0 -> cmp ; (cmp) == 0 -> !cmp
            if const == 0:
                return lhs if op == "!=" else norm(("cmp", CMPNEG[lhs[1]], lhs[2], lhs[3]))
            if const == 1:
                return lhs if op == "==" else norm(("cmp", CMPNEG[lhs[1]], lhs[2], lhs[3]))
        return ("cmp", op, lhs, C(const))
    if k == "un":
        a = norm(t[2])
        if t[1] == "!" and a[0] == "cmp":
            return norm(("cmp", CMPNEG[a[1]], a[2], a[3]))
        if t[1] == "!" and a[0] == "c":
            return C(0 if a[1] else 1)
        if t[1] == "-" and a[0] == "c":
            return C(-a[1])
        if t[1] == "~" and a[0] == "c":
            return C(~a[1])
        if t[1] == "-":
            return norm(("bin", "-", C(0), a))
        return ("un", t[1], a)
    if k == "sel":
        c, a, b = norm(t[1]), norm(t[2]), norm(t[3])
        if c[0] == "c":
            return a if c[1] else b
        if a == C(1) and b == C(0):
            return c if c[0] == "cmp" else ("cmp", "!=", c, C(0))
        if a == C(0) and b == C(1):
            return norm(("un", "!", c))
        if a == b:
            return a
        return ("sel", c, a, b)
    if k == "trunc":
        a = norm(t[2])
        if a[0] == "c":
            return C(a[1] & ((1 << t[1]) - 1))
        return ("trunc", t[1], a)
    if k == "fld":
        return ("fld", norm(t[1]), t[2])
    if k == "m0":
        return ("m0", norm(t[1]))
    return t


def _is_bool(t):
    return t[0] == "call" and len(t) > 3 and t[3] is True


def _sum_terms(t):
    """Decompose a (normalised or raw) sum into ([(sign, term)], const)."""
    if t[0] == "c":
        return [], t[1]
    if t[0] == "bin" and t[1] == "+":
        ta, ca = _sum_terms(t[2])
        tb, cb = _sum_terms(t[3])
        return ta + tb, ca + cb
    if t[0] == "bin" and t[1] == "-":
        ta, ca = _sum_terms(t[2])
        tb, cb = _sum_terms(t[3])
        return ta + [(-s, x) for (s, x) in tb], ca - cb
    if t[0] == "neg":
        ta, ca = _sum_terms(t[1])
        return [(-s, x) for (s, x) in ta], -ca
    return [(1, t)], 0


def _merge(terms):
    acc = {}
    order = []
    for (s, x) in terms:
        if x not in acc:
            acc[x] = 0
            order.append(x)
        acc[x] += s
    out = [(acc[x], x) for x in order if acc[x] != 0]
    out.sort(key=lambda sx: repr(sx[1]))
    return out


def _mk_sum(terms, const):
    terms = _merge(terms)
    res = None
    for (s, x) in terms:
        for _ in range(abs(s)):
            if res is None:
                res = x if s > 0 else ("neg", x)
            else:
                res = ("bin", "+" if s > 0 else "-", res, x)
    if res is None:
        return C(const)
    if const != 0:
        res = ("bin", "+", res, C(const))
    return res


def show(t):
    if not isinstance(t, tuple):
        return str(t)
    k = t[0]
    if k == "c":
        return str(t[1])
    if k == "p":
        return t[1]
    if k == "m0":
        return "old(*%s)" % show(t[1])
    if k == "addr":
        return "&" + t[1]
    if k == "fld":
        return "%s->%s" % (show(t[1]), t[2])
    if k == "bin":
        return "(%s %s %s)" % (show(t[2]), t[1], show(t[3]))
    if k == "cmp":
        return "(%s %s %s)" % (show(t[2]), t[1], show(t[3]))
    if k == "un":
        return "%s%s" % (t[1], show(t[2]))
    if k == "neg":
        return "-%s" % show(t[1])
    if k == "sel":
        return "(%s ? %s : %s)" % (show(t[1]), show(t[2]), show(t[3]))
    if k == "trunc":
        return "trunc%d(%s)" % (t[1], show(t[2]))
    if k == "call":
        if isinstance(t[2], tuple) and (not t[2] or isinstance(t[2][0], tuple)):
            return "%s(%s)#%s" % (t[1], ", ".join(show(a) for a in t[2]), t[3])
        return "%s()" % t[1]
    if k == "hdr":
        return "header[%s]" % show(t[1])
    if k == "lv":
        return "%s@loop%s" % (t[2], t[1])
    return repr(t)


def _vkey(e):
    loc = e.get("loc") or []
    return (tuple(loc[:2]), e.get("k"), e.get("op"), e.get("callee"))


class State:
    def __init__(self):
        self.env = {}       # local name -> term
        self.mem = {}       # location term -> term
        self.conds = []     # [(term, truth)]
        self.events = []    # [(kind, detail, node)]
        self.ncall = 0
        self.ret = None
        self.blocks = []
        self.vals = {}      # (line, col, kind) -> value of an already evaluated top-level expression

    def copy(self):
        s = State()
        s.env = dict(self.env)
        s.mem = dict(self.mem)
        s.conds = list(self.conds)
        s.events = list(self.events)
        s.ncall = self.ncall
        s.ret = self.ret
        s.blocks = list(self.blocks)
        s.vals = dict(self.vals)
        return s

    def load(self, loc):
        loc = norm(loc)
        if loc[0] == "addr":
            return self.env.get(loc[1], ("unk", loc[1]))
        if loc in self.mem:
            return self.mem[loc]
        return ("m0", loc)

    def store(self, loc, val):
        loc = norm(loc)
        if loc[0] == "addr":
            self.env[loc[1]] = val
        else:
            self.mem[loc] = val

    def cond_known(self, t):
        t = norm(t)
        if t[0] == "c":
            return bool(t[1])
        for (c, truth) in self.conds:
            if c == t:
                return truth
            if c[0] == "cmp" and t[0] == "cmp" and c[2] == t[2] and c[3] == t[3] and CMPNEG.get(c[1]) == t[1]:
                return not truth
        return None


class SymExec:
    """hooks.call(name, argterms, node, state) -> None (unknown) or list of (ret_term, state)."""

    def __init__(self, fn, call_hook=None, max_paths=256, width_of_call=None):
        self.fn = fn
        self.unit = fn.unit
        self.call_hook = call_hook
        self.max_paths = max_paths
        self.paths = []
        self.width_of_call = width_of_call

    # -- expression evaluation; returns list of (term, state) ---------------
    def width(self, e):
        t = self.unit.type_of(e)
        if e is not None and e.get("k") == "call" and self.width_of_call is not None:
            w = self.width_of_call(e)
            if w:
                return w
        return t["w"] if t else 0

    def lval(self, e, st):
        """Location term of an lvalue expression. Returns list of (loc, state)."""
        e = strip_expect(e)
        k = e["k"]
        if k == "ref":
            if e["decl"] in ("local", "param", "staticlocal"):
                return [(("addr", e["name"]), st)]
            return [(("glob", e["name"]), st)]
        if k == "un" and e["op"] == "*":
            return [(norm(t), s) for (t, s) in self.ev(e["e"], st)]
        if k == "member":
            if e["arrow"]:
                return [(("fld", norm(t), e["field"]), s) for (t, s) in self.ev(e["base"], st)]
            out = []
            for (loc, s) in self.lval(e["base"], st):
                # a record embedded at offset 0 (`node->base.key`) names the same bytes as the outer pointer cast to the
                # embedded type (`((PTreeBaseNode *) node)->key`): one location for both spellings
                bm = strip_expect(e["base"])
                while bm is not None and bm["k"] == "cast":
                    bm = bm["e"]
                if loc[0] == "fld" and bm is not None and bm["k"] == "member" and bm.get("rec") in self.unit.records:
                    f0 = self.unit.records[bm["rec"]].field(bm["field"])
                    if f0 is not None and f0.get("off") == 0:
                        out.append((("fld", loc[1], e["field"]), s))
                        continue
                out.append((("fld", loc, e["field"]), s))
            return out
        if k == "idx":
            out = []
            for (b, s1) in self.ev(e["base"], st):
                for (i, s2) in self.ev(e["i"], s1):
                    out.append((norm(("bin", "+", b, i)), s2))
            return out
        if k == "cast":
            return self.lval(e["e"], st)
        return [(("unk", "lval"), st)]

    def ev(self, e, st):
        e = strip_expect(e)
        if e is None:
            return [(("unk", "none"), st)]
        k = e["k"]
        if k == "int":
            return [(C(e.get("v", 0)), st)]
        c = cv(e)
        if c is not None and k in ("sizeof", "offsetof", "ref"):
            return [(C(c), st)]
        if k == "ref":
            d = e["decl"]
            if d == "param":
                if e["name"] in st.env:
                    return [(st.env[e["name"]], st)]
                return [(("p", e["name"]), st)]
            if d in ("local", "staticlocal"):
                return [(st.env.get(e["name"], ("unk", e["name"])), st)]
            if d == "enumconst" and c is not None:
                return [(C(c), st)]
            if d == "func":
                return [(("func", e["name"]), st)]
            return [(st.load(("glob", e["name"])), st)]
        if k == "cast":
            out = []
            wi = self.width(strip_expect(e["e"]))
            wo = self.unit.type_of(e)["w"] if self.unit.type_of(e) else 0
            for (t, s) in self.ev(e["e"], st):
                if wo and wi and wo < wi and e["ck"] in ("IntegralCast", "PointerToIntegral", "IntegralToPointer"):
                    t = norm(("trunc", wo, t))
                out.append((t, s))
            return out
        if k == "un":
            op = e["op"]
            if op == "*":
                out = []
                for (t, s) in self.ev(e["e"], st):
                    s.events.append(("read", norm(t), e))
                    out.append((s.load(t), s))
                return out
            if op == "&":
                inner = strip_expect(e["e"])
                while inner is not None and inner["k"] == "cast":
                    inner = inner["e"]
                out = []
                for (loc, s) in self.lval(e["e"], st):
                    # the address of a member at offset 0 is the object's own address (`&node->base` is `(Base *) node`)
                    if loc[0] == "fld" and inner is not None and inner["k"] == "member" and inner.get("rec") in self.unit.records:
                        f0 = self.unit.records[inner["rec"]].field(inner["field"])
                        if f0 is not None and f0.get("off") == 0:
                            out.append((loc[1], s))
                            continue
                    out.append((loc, s))
                return out
            if op in ("post++", "post--", "pre++", "pre--"):
                out = []
                for (loc, s) in self.lval(e["e"], st):
                    if loc[0] != "addr":
                        s.events.append(("read", loc, e))
                    old = s.load(loc)
                    new = norm(("bin", "+" if "++" in op else "-", old, C(1)))
                    if loc[0] != "addr":
                        s.events.append(("write", loc, e))
                    s.store(loc, new)
                    out.append((old if op.startswith("post") else new, s))
                return out
            return [(norm(("un", op, t)), s) for (t, s) in self.ev(e["e"], st)]
        if k == "bin":
            op = e["op"]
            if op == ",":
                out = []
                for (_, s1) in self.ev(e["l"], st):
                    out.extend(self.ev(e["r"], s1))
                return out
            if op in ("&&", "||"):
                # operands live in other CFG blocks; value is decided by path conditions
                out = []
                for (a, s1) in self.ev(e["l"], st.copy() if False else st):
                    for (b, s2) in self.ev(e["r"], s1):
                        out.append((("bin", op, norm(a), norm(b)), s2))
                return out
            out = []
            # pointer arithmetic is scaled by the pointee size (`(Header *) addr + 1` is sizeof (Header) bytes further on)
            scale_l = scale_r = 1
            if op in ("+", "-"):
                tl, tr = self.fn.unit.type_of(e["l"]), self.fn.unit.type_of(e["r"])

                def pointee(t):
                    if t and t.get("k") == "ptr" and t.get("p") is not None:
                        pt = self.fn.unit.types[t["p"]]
                        return max(1, (pt.get("w") or 8) // 8)
                    return None
                pl, pr = pointee(tl), pointee(tr)
                if pl and not pr:
                    scale_r = pl
                elif pr and not pl and op == "+":
                    scale_l = pr
            for (a, s1) in self.ev(e["l"], st):
                for (b, s2) in self.ev(e["r"], s1):
                    if scale_r != 1:
                        b = norm(("bin", "*", b, C(scale_r)))
                    if scale_l != 1:
                        a = norm(("bin", "*", a, C(scale_l)))
                    if op in CMPNEG:
                        out.append((norm(("cmp", op, a, b)), s2))
                    else:
                        out.append((norm(("bin", op, a, b)), s2))
            return out
        if k == "asg":
            out = []
            for (v, s1) in self.ev(e["r"], st):
                for (loc, s2) in self.lval(e["l"], s1):
                    if e["op"] != "=":
                        if loc[0] != "addr":
                            s2.events.append(("read", loc, e))
                        old = s2.load(loc)
                        v2 = norm(("bin", e["op"][:-1], old, v))
                    else:
                        v2 = v
                    wl = self.unit.type_of(e)["w"] if self.unit.type_of(e) else 0
                    if loc[0] != "addr":
                        s2.events.append(("write", loc, e))
                    s2.store(loc, v2)
                    out.append((v2, s2))
            return out
        if k == "member":
            out = []
            for (loc, s) in self.lval(e, st):
                s.events.append(("read", loc, e))
                out.append((s.load(loc), s))
            return out
        if k == "idx":
            out = []
            for (loc, s) in self.lval(e, st):
                s.events.append(("read", loc, e))
                out.append((s.load(loc), s))
            return out
        if k == "cond":
            # arms are evaluated in other blocks; choose by path condition
            out = []
            for (c, s1) in self._ev_elsewhere(e["c"], st):
                kn = s1.cond_known(c)
                if kn is True:
                    out.extend(self._ev_elsewhere(e["a"], s1))
                elif kn is False:
                    out.extend(self._ev_elsewhere(e["b"], s1))
                else:
                    for (a, s2) in self._ev_elsewhere(e["a"], s1):
                        for (b, s3) in self._ev_elsewhere(e["b"], s2):
                            out.append((norm(("sel", c, a, b)), s3))
            return out
        if k == "call":
            return self.call(e, st)
        if k in ("sizeof", "offsetof"):
            return [(C(e.get("cv", 0)), st)]
        if k == "str":
            return [(("str", e.get("v")), st)]
        return [(("unk", k), st)]

    def _ev_elsewhere(self, e, st):
        """Evaluate a sub-expression the CFG placed in another block: its side
        effects already happened there, so evaluate on a scratch copy and keep
        only the value."""
        if e is not None and e.get("x"):
            for cand in (e, strip_expect(e)):
                key = _vkey(cand)
                if key in st.vals:
                    return [(st.vals[key], st)]
            tmp = st.copy()
            res = self.ev(e, tmp)
            return [(t, st) for (t, _) in res[:1]]
        return self.ev(e, st)

    def call(self, e, st):
        name = e.get("callee")
        # evaluate arguments left to right
        states = [([], st)]
        for a in e["args"]:
            nxt = []
            for (args, s) in states:
                for (t, s2) in (self._ev_elsewhere(a, s) if a is not None and a.get("x") else self.ev(a, s)):
                    nxt.append((args + [t], s2))
            states = nxt
        out = []
        for (args, s) in states:
            r = None
            if self.call_hook is not None:
                r = self.call_hook(name, args, e, s, self)
            if r is None:
                s.ncall += 1
                s.events.append(("call", name, e))
                out.append((("call", name, tuple(args), s.ncall), s))
            else:
                out.extend(r)
        return out

    # -- statements and paths --------------------------------------------------
    def run(self, init=None):
        fn = self.fn
        if fn.back_edges():
            raise AnalysisBroken("symbolic evaluator: %s (%s) contains a loop" % (fn.name, fn.unit.name))
        st0 = init or State()
        self._walk(fn.entry, st0)
        return self.paths

    def _walk(self, bid, st):
        fn = self.fn
        if len(self.paths) > self.max_paths:
            raise AnalysisBroken("symbolic evaluator: too many paths in %s" % fn.name)
        b = fn.blocks[bid]
        st.blocks.append(bid)
        states = [st]
        condterm = {}
        for i, stmt in enumerate(b.stmts):
            nxt = []
            for s in states:
                if stmt["k"] == "decl":
                    if stmt.get("init") is not None:
                        for (t, s2) in self.ev(stmt["init"], s):
                            s2.env[stmt["name"]] = t
                            nxt.append(s2)
                    else:
                        s.env[stmt["name"]] = ("unk", stmt["name"])
                        nxt.append(s)
                elif stmt["k"] == "ret":
                    if stmt.get("e") is not None:
                        for (t, s2) in self.ev(stmt["e"], s):
                            s2.ret = norm(t)
                            s2.events.append(("ret", s2.ret, stmt))
                            nxt.append(s2)
                    else:
                        s.ret = ("void",)
                        nxt.append(s)
                else:
                    for (t, s2) in self.ev(stmt, s):
                        s2.vals[_vkey(stmt)] = norm(t)
                        s2.vals[_vkey(strip_expect(stmt))] = norm(t)
                        if b.term and b.term.get("ci") == i:
                            s2.env = dict(s2.env)
                            s2.env["__cond__"] = norm(t)
                        nxt.append(s2)
            states = nxt
        for s in states:
            if bid == fn.exit or not b.succs:
                self.paths.append(s)
                continue
            if len(b.succs) == 1:
                self._walk(b.succs[0][0], s)
                continue
            ct = s.env.get("__cond__")
            if b.term and b.term.get("ci", -1) >= 0 and ct is not None:
                c = ct if ct[0] in ("cmp", "c") else norm(("cmp", "!=", ct, C(0)))
            else:
                c = None
            for (to, on) in b.succs:
                s2 = s.copy()
                if c is not None and on in ("true", "false"):
                    kn = s2.cond_known(c)
                    want = on == "true"
                    if kn is not None and kn != want:
                        continue
                    if kn is None:
                        s2.conds.append((c, want))
                self._walk(to, s2)


# ---------------------------------------------------------------------------
# SymFlow: the term evaluator run as a path-sensitive dataflow (loops allowed;
# states are merged by equality, so rules must keep the term domain finite:
# call results are named by call *site*, and a rule resets what a blocking
# call may have changed).
# ---------------------------------------------------------------------------

def term_mentions(t, sub):
    if t == sub:
        return True
    if isinstance(t, tuple):
        return any(term_mentions(x, sub) for x in t)
    return False


def site_of(node):
    loc = node.get("loc") or [0, 0]
    return (loc[0], loc[1] if len(loc) > 1 else 0)


class FState(State):
    """State with a user typestate dictionary `tags`; freezable."""

    def __init__(self):
        State.__init__(self)
        self.tags = {}

    def copy(self):
        s = FState()
        s.env = dict(self.env)
        s.mem = dict(self.mem)
        s.conds = list(self.conds)
        s.events = list(self.events)
        s.ncall = 0
        s.ret = self.ret
        s.blocks = []
        s.vals = dict(self.vals)
        s.tags = dict(self.tags)
        return s

    def freeze(self):
        return (tuple(sorted(self.env.items(), key=repr)),
                tuple(sorted(self.mem.items(), key=repr)),
                frozenset(self.conds),
                tuple(sorted(self.tags.items(), key=repr)),
                tuple(sorted(self.vals.items(), key=repr)))

    @staticmethod
    def thaw(fz):
        s = FState()
        s.env = dict(fz[0])
        s.mem = dict(fz[1])
        s.conds = list(fz[2])
        s.tags = dict(fz[3])
        s.vals = dict(fz[4])
        return s

    def assume(self, c, truth):
        """Add path condition; returns False when infeasible."""
        c = norm(c)
        if c[0] != "cmp" and c[0] != "c":
            c = norm(("cmp", "!=", c, C(0)))
        kn = self.cond_known(c)
        if kn is not None:
            return kn == truth
        self.conds.append((c, truth))
        return True

    def forget(self, pred):
        """Drop path conditions, memory and cached values whose terms satisfy pred."""
        self.conds = [(c, t) for (c, t) in self.conds if not pred(c)]
        self.mem = {k: v for k, v in self.mem.items() if not pred(k) and not pred(v)}
        self.vals = {k: v for k, v in self.vals.items() if not pred(v)}

    def cond_known(self, t):
        t = norm(t)
        if t[0] == "c":
            return bool(t[1])
        r = State.cond_known(self, t)
        if r is not None:
            return r
        # x == c1 known true  =>  x == c2 false, x != c2 true (c1 != c2)
        if t[0] == "cmp" and t[3][0] == "c":
            for (c, truth) in self.conds:
                if c[0] == "cmp" and c[2] == t[2] and c[3][0] == "c":
                    if c[1] == "==" and truth:
                        v = c[3][1]
                        w = t[3][1]
                        return {"==": v == w, "!=": v != w, "<": v < w, "<=": v <= w, ">": v > w, ">=": v >= w}[t[1]]
                    if c[1] == "!=" and not truth:
                        v = c[3][1]
                        w = t[3][1]
                        return {"==": v == w, "!=": v != w, "<": v < w, "<=": v <= w, ">": v > w, ">=": v >= w}[t[1]]
        return None


class SymFlow:
    """on_call(name, args, node, st, sx) -> None | [(ret, st)];
    on_stmt_done(st, block, idx, stmt) optional; on_return(st, stmt) optional."""

    def __init__(self, fn, on_call=None, on_return=None, on_branch=None, max_states=20000, bool_calls=(),
                 on_stmt_done=None, widen=False, on_widen=None):
        from .flow import Flow
        self.on_widen = on_widen
        from .ir import walk as _walk, strip_casts as _sc
        self.widen = {}
        if widen:
            # loop header -> local variables assigned inside the loop: replaced by an opaque
            # per-loop symbol whenever the header is entered (standard widening, keeps terms finite)
            from .ir import cv as _cv
            for (hdr, body) in fn.loops():
                mod = set()
                nonconst = set()
                for bid in body:
                    for stt in fn.blocks[bid].stmts:
                        for n in _walk(stt):
                            tgt = None
                            if n["k"] == "asg":
                                tgt = _sc(n["l"])
                                if tgt is not None and tgt["k"] == "ref" and not (n["op"] == "=" and _cv(n["r"]) in (0, 1)):
                                    nonconst.add(tgt["name"])
                            elif n["k"] == "un" and ("++" in n["op"] or "--" in n["op"]):
                                tgt = _sc(n["e"])
                                if tgt is not None and tgt["k"] == "ref":
                                    nonconst.add(tgt["name"])
                            elif n["k"] == "decl":
                                mod.add(n["name"])
                                nonconst.add(n["name"])
                            elif n["k"] == "call":
                                for a in n["args"]:
                                    a2 = _sc(a)
                                    if a2 is not None and a2["k"] == "un" and a2["op"] == "&":
                                        t2 = _sc(a2["e"])
                                        if t2 is not None and t2["k"] == "ref":
                                            mod.add(t2["name"])
                                            nonconst.add(t2["name"])
                            if tgt is not None and tgt["k"] == "ref" and tgt.get("decl") in ("local", "param"):
                                mod.add(tgt["name"])
                # a flag that only ever receives the constants 0 / 1 inside the loop keeps its value at the header: the header
                # states are partitioned by it (`found`, `done`), which keeps what was established together with the flag
                self.widen[hdr] = sorted(mod & nonconst)
        self.fn = fn
        self.on_call = on_call
        self.on_return = on_return
        self.on_branch = on_branch
        self.on_stmt_done = on_stmt_done
        self.bool_calls = set(bool_calls)
        self.sx = SymExec(fn, self._call)
        self.flow = Flow(fn, [], self._stmt, self._edge, max_states=max_states)
        self.returns = []   # (frozen_state, stmt, flow.cur)

    def _call(self, name, args, node, st, sx):
        r = None
        if self.on_call is not None:
            r = self.on_call(name, args, node, st, sx)
        if r is not None:
            return r
        site = site_of(node)
        t = ("call", name, site, name in self.bool_calls)
        st.forget(lambda x: term_mentions(x, t))
        return [(t, st)]

    def _stmt(self, fz, b, i, stmt):
        st = FState.thaw(fz)
        outs = []
        if stmt["k"] == "decl":
            if stmt.get("init") is not None:
                for (t, s2) in self.sx.ev(stmt["init"], st):
                    s2.env[stmt["name"]] = norm(t)
                    outs.append(s2)
            else:
                st.env[stmt["name"]] = ("unk", stmt["name"])
                outs.append(st)
        elif stmt["k"] == "ret":
            if stmt.get("e") is not None:
                for (t, s2) in self.sx.ev(stmt["e"], st):
                    s2.ret = norm(t)
                    outs.append(s2)
            else:
                st.ret = ("void",)
                outs.append(st)
            for s2 in outs:
                self.returns.append((s2, stmt, self.flow.cur))
                if self.on_return is not None:
                    self.on_return(s2, stmt, self)
        else:
            for (t, s2) in self.sx.ev(stmt, st):
                nt = norm(t)
                s2.vals[_vkey(stmt)] = nt
                s2.vals[_vkey(strip_expect(stmt))] = nt
                if b.term and b.term.get("ci") == i:
                    s2.env["__cond__"] = nt
                outs.append(s2)
        res = []
        for s2 in outs:
            if self.widen:
                w = set(s2.tags.get("__w", ()))
                for ev in s2.events:
                    if ev[0] == "write":
                        w.add(norm(ev[1]))
                if w:
                    s2.tags["__w"] = tuple(sorted(w, key=repr))
            if self.on_stmt_done is not None:
                self.on_stmt_done(s2, b, i, stmt, self)
            s2.ret = None if stmt["k"] != "ret" else s2.ret
            res.append(s2.freeze())
        return res

    def _edge(self, fz, b, to, on):
        r = self._edge0(fz, b, to, on)
        if r is not None and to in self.widen and self.widen[to]:
            st = FState.thaw(r)
            for v in self.widen[to]:
                st.env[v] = ("lv", to, v)
            st.env.pop("__cond__", None)
            # memory written since the last widening gets an opaque per-loop value
            for loc in st.tags.pop("__w", ()):
                if loc in st.mem:
                    st.mem[loc] = ("hv", to, loc)
            if self.on_widen is not None:
                self.on_widen(st, to)
            return st.freeze()
        return r

    def _edge0(self, fz, b, to, on):
        if on not in ("true", "false") or not b.term or b.term.get("ci", -1) < 0:
            if on.startswith("case:") or on == "default":
                st = FState.thaw(fz)
                ct = st.env.get("__cond__")
                if ct is not None:
                    if on.startswith("case:"):
                        try:
                            v = int(on[5:])
                        except ValueError:
                            return fz
                        if not st.assume(("cmp", "==", ct, C(v)), True):
                            return None
                    else:
                        for (t2, o2) in b.succs:
                            if o2.startswith("case:"):
                                try:
                                    v = int(o2[5:])
                                except ValueError:
                                    continue
                                if not st.assume(("cmp", "==", ct, C(v)), False):
                                    return None
                    st.env.pop("__cond__", None)
                    return st.freeze()
            return fz
        st = FState.thaw(fz)
        ct = st.env.pop("__cond__", None)
        if ct is None:
            return st.freeze()
        want = on == "true"

        def parts(t, w):
            # `a && b` taken: both hold; `a || b` not taken: neither holds; otherwise a short-circuit value carries no information
            if isinstance(t, tuple) and t and t[0] == "bin" and t[1] in ("&&", "||"):
                if (t[1] == "&&" and w) or (t[1] == "||" and not w):
                    return parts(t[2], w) + parts(t[3], w)
                # `a && b` not taken while a is known to hold: b fails (and symmetrically; dually for `a || b` taken)
                def known(x):
                    cx = x if (isinstance(x, tuple) and x and x[0] in ("cmp", "c")) else norm(("cmp", "!=", x, C(0)))
                    return st.cond_known(cx)
                ka, kb = known(t[2]), known(t[3])
                dec = (t[1] == "||")          # value that decides the operator on its own
                if ka is not None and ka != dec:
                    return parts(t[3], w)
                if kb is not None and kb != dec:
                    return parts(t[2], w)
                return []
            return [(t, w)]
        if ct[0] == "bin" and ct[1] in ("&&", "||"):
            for (t_, w_) in parts(ct, want):
                if self.on_branch is not None:
                    self.on_branch(st, b, t_, w_, self)
                c_ = t_ if (isinstance(t_, tuple) and t_ and t_[0] in ("cmp", "c")) else norm(("cmp", "!=", t_, C(0)))
                if not st.assume(c_, w_):
                    return None
            return st.freeze()
        if self.on_branch is not None:
            self.on_branch(st, b, ct, want, self)
        if not st.assume(ct, want):
            return None
        return st.freeze()

    def run(self, init=None):
        st0 = init or FState()
        self.flow.init_states = [st0.freeze()]
        self.flow.run()
        return self

    def witness_lines(self, cur):
        return self.flow.witness_lines(cur[0], cur[1])
