"""A-WIRE: declarative wrapper ("wiring") checks.

check_wrapper decides, path-sensitively, that a public boolean wrapper F
 * calls the native N exactly once on every path that is not an
   argument-validation exit,
 * on the handle derived from F's own parameter,
 * returns TRUE exactly on the paths where N's result equals the success
   value and FALSE on the others,
 * reaches none of the forbidden (blocking) callees.
"""
from . import guards
from .flow import Flow
from .ir import calls, strip_casts, ap, root_var, line, show, walk, cv
from .units import AnalysisBroken


def norm_callee(name):
    """__sync_fetch_and_add_4 -> __sync_fetch_and_add, __atomic_store_4 -> __atomic_store_n."""
    if not name:
        return name
    for suf in ("_1", "_2", "_4", "_8", "_16"):
        if name.endswith(suf) and (name.startswith("__sync_") or name.startswith("__atomic_")):
            base = name[: -len(suf)]
            if name.startswith("__atomic_") and not base.endswith("_n"):
                base += "_n"
            return base
    return name


def callee_of(c):
    return norm_callee(c.get("callee"))


def wrapper_paths(fn, native_names, kill_calls=True):
    """Run the fact flow over fn; returns list of
    (facts, ncalls, ret_stmt, block, in_state, flow) per (return, state)."""
    native_names = set(native_names)
    results = []

    def on_stmt(st, b, i, stmt):
        facts, n = st
        facts = guards.transfer(facts, stmt)
        k = 0
        for c in calls(stmt):
            if callee_of(c) in native_names:
                k += 1
        n2 = min(n + k, 3)
        st2 = (facts, n2)
        if stmt["k"] == "ret":
            results.append((facts, n2, stmt, b, flow.cur))
        return [st2]

    def on_edge(st, b, to, on):
        facts, n = st
        f2 = guards.edge_assume(facts, b, on)
        if f2 is None:
            return None
        return (f2, n)

    flow = Flow(fn, [(guards.EMPTY, 0)], on_stmt, on_edge)
    flow.run()
    return results, flow


def check_wrapper(rep, rule, fn, native, handle=None, success=("==", 0), failure=("!=", 0),
                  forbidden=(), true_val=1, false_val=0, handle_arg=0, allow_zero_call_true=False,
                  site=None, extra_natives=()):
    """See module docstring. `handle`: predicate(arg_expr, fn) -> (ok, text)."""
    site = site or ("wire:" + native)
    ncalls = [c for (b, i, c) in fn.calls() if callee_of(c) == native]
    if not ncalls:
        rep.ob(rule, fn, site, False, "%s never calls %s" % (fn.name, native), fn.loc[0])
        return False
    ok_all = True
    # handle argument
    if handle is not None:
        for c in ncalls:
            if handle_arg >= len(c["args"]):
                rep.ob(rule, fn, site + ":handle", False, "%s called with too few arguments" % native, c)
                ok_all = False
                continue
            ok, text = handle(c["args"][handle_arg], fn)
            rep.ob(rule, fn, site + ":handle", ok,
                   "%s operates on %s%s" % (native, show(c["args"][handle_arg]), "" if ok else " — " + text), c)
            ok_all &= ok
    # forbidden callees (e.g. blocking natives in a try-function)
    bad = [c for (b, i, c) in fn.calls() if callee_of(c) in forbidden]
    for c in bad:
        rep.ob(rule, fn, site + ":noblock", False, "%s reaches forbidden callee %s" % (fn.name, c.get("callee")), c)
        ok_all = False
    if forbidden and not bad:
        rep.ob(rule, fn, site + ":noblock", True, "%s reaches none of %s" % (fn.name, ", ".join(sorted(forbidden))), fn.loc[0])
    # result mapping
    results, flow = wrapper_paths(fn, [native] + list(extra_natives))
    nkey = None
    paths_ok = True
    for (facts, n, ret, b, cur) in results:
        rv = ret.get("e")
        where = line(ret)
        path = flow.witness_lines(cur[0], cur[1])
        if n == 0:
            v = guards.eval_const(rv, facts) if rv is not None else None
            if v is None or (v != false_val and not allow_zero_call_true):
                rep.ob(rule, fn, site + ":result", False,
                       "a path returns %s without calling %s" % (show(rv), native), where, path)
                paths_ok = False
            continue
        if n >= 2:
            rep.ob(rule, fn, site + ":result", False, "a path calls %s more than once" % native, where, path)
            paths_ok = False
            continue
        # exactly one call: find the call key
        ck = None
        for c in ncalls:
            ck = guards.key(c)
        # outcome known from facts?
        out_ok = guards.contradicts(facts, ck, failure[0], failure[1]) or _holds(facts, ck, success)
        out_fail = guards.contradicts(facts, ck, success[0], success[1]) or _holds(facts, ck, failure)
        if out_ok and not out_fail:
            v = guards.eval_const(rv, facts)
            if v != true_val:
                rep.ob(rule, fn, site + ":result", False,
                       "returns %s on the path where %s succeeded (expected TRUE)" % (show(rv), native), where, path)
                paths_ok = False
        elif out_fail and not out_ok:
            v = guards.eval_const(rv, facts)
            if v != false_val:
                rep.ob(rule, fn, site + ":result", False,
                       "returns %s on the path where %s failed (expected FALSE)" % (show(rv), native), where, path)
                paths_ok = False
        else:
            # undetermined at the return: evaluate the return expression under both outcomes
            fs = guards.add_fact(facts, ck, success[0], success[1])
            ff = guards.add_fact(facts, ck, failure[0], failure[1])
            vs = guards.eval_const(rv, fs) if fs is not None else true_val
            vf = guards.eval_const(rv, ff) if ff is not None else false_val
            if vs != true_val or vf != false_val:
                rep.ob(rule, fn, site + ":result", False,
                       "return value %s is not TRUE exactly when %s %s %s (evaluates to %s on success, %s on failure)"
                       % (show(rv), native, success[0], success[1], vs, vf), where, path)
                paths_ok = False
    if not results:
        rep.ob(rule, fn, site + ":result", False, "%s has no return statement" % fn.name, fn.loc[0])
        paths_ok = False
    if paths_ok:
        rep.ob(rule, fn, site + ":result", True,
               "%d return path(s): TRUE exactly when %s %s %s, one call per non-validation path"
               % (len(results), native, success[0], success[1]), fn.loc[0])
    return ok_all and paths_ok


def _holds(facts, k, fact):
    op, v = fact
    for (fk, fop, fv) in facts:
        if fk == k and fop == op and fv == v:
            return True
        if fk == k and fop == "==" and op == "!=" and fv != v:
            return True
    return False


def handle_is_param_field(field_type_pred=None, field=None, addr=True, param_index=0):
    """Handle predicate: arg is `&P->F` (addr) or `P->F` with P the function's
    param_index-th parameter."""
    def pred(arg, fn):
        a = fn.resolve(arg) if hasattr(fn, "resolve") else strip_casts(arg)      # through casts and single-definition temporaries
        if a is None:
            return False, "no argument"
        if addr:
            if not (a["k"] == "un" and a["op"] == "&"):
                return False, "expected the address of a field of the parameter"
            a = strip_casts(a["e"])
        if a is None or a["k"] != "member":
            return False, "expected a field of the parameter"
        rv = root_var(a)
        params = fn.param_names()
        if params and rv != params[param_index] and hasattr(fn, "value_aliases") and rv in fn.value_aliases(params[param_index]):
            rv = params[param_index]
        if not params or rv != params[param_index]:
            return False, "handle does not belong to parameter %s" % (params[param_index] if params else "?")
        if field is not None and a["field"] != field:
            return False, "expected field %s" % field
        if field_type_pred is not None:
            t = fn.unit.type_of(a)
            if t is None or not field_type_pred(t):
                return False, "field %s has unexpected type %s" % (a["field"], t and t["s"])
        return True, ""
    return pred


def check_wrapper_through(rep, rule, fn, native, **kw):
    """Like check_wrapper, but follows one static pass-through helper: when fn
    does not call `native` itself and calls exactly one function of its own
    unit that does, the helper is checked against `native` and fn against the
    helper (TRUE iff the helper returns TRUE, own parameter forwarded)."""
    direct = [c for (b, i, c) in fn.calls() if callee_of(c) == native]
    if direct:
        return check_wrapper(rep, rule, fn, native, **kw)
    helpers = []
    for (b, i, c) in fn.calls():
        h = fn.unit.functions.get(c.get("callee") or "")
        if h is not None and any(callee_of(x) == native for (_, _, x) in h.calls()):
            helpers.append((h, c))
    if len(helpers) != 1:
        rep.ob(rule, fn, "wire:" + native, False, "%s neither calls %s nor exactly one helper that does" % (fn.name, native), fn.loc[0])
        return False
    h, c = helpers[0]
    ok1 = check_wrapper(rep, rule, h, native, **kw)

    def fwd(arg, f):
        a = strip_casts(arg)
        ps = f.param_names()
        if a is not None and a["k"] == "ref" and ps and a["name"] == ps[0]:
            return True, ""
        return False, "the helper is not called on %s's own parameter" % f.name
    ok2 = check_wrapper(rep, rule, fn, h.name, handle=fwd, success=("==", 1), failure=("==", 0),
                        forbidden=kw.get("forbidden", ()), site="wire:%s:via:%s" % (native, h.name),
                        allow_zero_call_true=False)
    return ok1 and ok2


def creation_attributes(unit, init_callee, attr_prefix, allowed):
    """Calls of `init_callee (obj, attr)` in the unit's entry functions and, for each, the first attribute setter on that attribute
    object that is not in `allowed` ({setter name: None (any value) | set of accepted constant values}):
    [(function view, init call, offending setter call or None)]"""
    out = []
    for f in unit.roots():
        for (b, i, c) in f.calls():
            if c.get("callee") != init_callee or len(c.get("args", ())) < 2:
                continue
            bad = None
            a1 = strip_casts(c["args"][1])
            if not (cv(c["args"][1]) == 0 or (a1 is not None and cv(a1) == 0)):
                av = root_var(a1)
                for (b2, i2, c2) in f.calls():
                    cn = c2.get("callee") or ""
                    if not (cn.startswith(attr_prefix + "set") and c2.get("args") and root_var(c2["args"][0]) == av):
                        continue
                    if cn in allowed and (allowed[cn] is None or (len(c2["args"]) > 1 and cv(c2["args"][1]) in allowed[cn])):
                        continue
                    bad = bad or c2
            out.append((f, c, bad))
    return out


def table_item(fn, unit, rhs, tparam, tval):
    """Table-driven dispatch: for `obj->slot = row->field` / `= table[index].field` where `row = &table[index]` and `index` is the
    dispatch parameter (plus or minus constants), the initialiser item of that field in the row selected by parameter value `tval`;
    None when `rhs` is not of that form."""
    def index_of(e):
        e = strip_casts(e)
        if e is None:
            return None
        if cv(e) is not None:
            return cv(e)
        if e["k"] == "ref":
            if e["name"] == tparam:
                return tval
            r_ = fn.resolve(e)
            return index_of(r_) if r_ is not e else None
        if e["k"] == "bin" and e["op"] in ("+", "-"):
            a, b_ = index_of(e["l"]), index_of(e["r"])
            return None if a is None or b_ is None else (a + b_ if e["op"] == "+" else a - b_)
        return None

    def row_of(e):
        e = strip_casts(e)
        if e is None:
            return None
        if e["k"] == "un" and e.get("op") == "&":
            return row_of(e["e"])
        if e["k"] == "ref" and e.get("decl") == "local":
            r_ = fn.resolve(e)
            return row_of(r_) if r_ is not e else None
        if e["k"] == "idx":
            g = strip_casts(e["base"])
            gl = unit.globals.get(g["name"]) if g is not None and g["k"] == "ref" else None
            ix = index_of(e["i"])
            items = (gl.get("init") or {}).get("items") if gl else None
            if items is not None and ix is not None and 0 <= ix < len(items):
                return items[ix]
        return None
    r = strip_casts(rhs)
    if r is None or r["k"] != "member":
        return None
    row = row_of(r["base"])
    rec = unit.records.get(r.get("rec"))
    if row is None or rec is None or not row.get("items"):
        return None
    names_ = [f_["name"] for f_ in rec.fields]
    if r["field"] not in names_ or names_.index(r["field"]) >= len(row["items"]):
        return None
    return row["items"][names_.index(r["field"])]


def init_creates(fn):
    """Global objects an initialisation function creates on demand (`if (G == NULL) G = ctor ();`): for every global G that fn assigns
    from a call, whether - entered with G == NULL - every path to fn's end has made that assignment.
    -> [(G, constructor name, ok, line of the assignment)]"""
    out = []
    cands = {}
    for (b, i, n) in fn.nodes(elsewhere=True):
        if n["k"] == "asg" and n.get("op") == "=":
            l, r = strip_casts(n["l"]), strip_casts(n["r"])
            if l is not None and l["k"] == "ref" and l.get("decl") == "global" and r is not None and r["k"] == "call" and r.get("callee"):
                cands[l["name"]] = (r.get("callee"), line(n))
    for G, (ctor, ln) in sorted(cands.items()):
        missed = []

        def on_stmt(st, b, i, stmt, G=G):
            facts, made = st
            for n in walk(stmt):
                if n["k"] == "asg" and n.get("op") == "=" and strip_casts(n["l"])["k"] == "ref" and strip_casts(n["l"])["name"] == G:
                    r = strip_casts(n["r"])
                    made = r is not None and r["k"] == "call"
            if stmt["k"] == "ret":
                if not made:
                    missed.append(line(stmt))
                return []
            return [(guards.transfer(facts, stmt), made)]

        def on_edge(st, b, to, on):
            f2 = guards.edge_assume(st[0], b, on)
            return None if f2 is None else (f2, st[1])
        f0 = guards.add_fact(guards.EMPTY, G, "==", 0)
        fl = Flow(fn, [(f0, False)], on_stmt, on_edge).run()
        for (parent, (facts, made)) in fl.exit_states():
            if not made:
                missed.append(fn.loc[0])
        out.append((G, ctor, not missed, ln))
    return out


def raw_allocations(prog, units):
    """Record objects that come from the non-zeroing allocator.  The library's objects are zero-filled at birth (p_malloc0) and their
    functions rely on it for every field the constructor does not store (counters, flags, links); a raw p_malloc is only sound when
    every field that some function reads is stored on every path before the object leaves the constructor.
    -> (number of record allocations seen, [(function, variable, record, allocator, missing fields, line)])"""
    seen = 0
    out = []
    reads = {}          # record -> set of fields read somewhere
    for u in prog.units.values():
        for f in u.functions.values():
            stores = set(id(strip_casts(n["l"])) for (b, i, n) in f.nodes(elsewhere=True) if n["k"] == "asg" and n.get("op") == "=")
            for (b, i, n) in f.nodes(elsewhere=True):
                if n["k"] == "member" and n.get("rec") and id(n) not in stores:
                    reads.setdefault(n["rec"], set()).add(n["field"])
    for un in units:
        u = prog.units.get(un)
        if u is None:
            continue
        for fn in sorted(u.functions.values(), key=lambda f: f.loc[0]):
            allocs = []
            for (b, i, n) in fn.nodes(elsewhere=True):
                if n["k"] == "asg" and n.get("op") == "=":
                    l, r = strip_casts(n["l"]), strip_casts(n["r"])
                    if l is not None and l["k"] == "ref" and r is not None and r["k"] == "call" and r.get("callee") in ("p_malloc", "p_malloc0", "malloc", "calloc"):
                        t = u.type_of(l)
                        if t and t.get("k") == "ptr" and u.types[t["p"]].get("k") == "rec":
                            allocs.append((l["name"], u.types[t["p"]].get("rec"), r.get("callee"), n))
            for (v, rec, alloc, node) in allocs:
                seen += 1
                if alloc in ("p_malloc0", "calloc"):
                    continue
                need = set(f_ for f_ in reads.get(rec, ()) if u.records.get(rec) is None or u.records[rec].field(f_) is not None)     # same-named records of other models
                missing = set()

                def on_stmt(st, b, i, stmt, v=v, need=need, missing=missing, node=node):
                    facts, started, stored = st
                    for n in walk(stmt):
                        if n is node:
                            started, stored = True, frozenset()
                        if not started:
                            continue
                        if n["k"] == "asg" and strip_casts(n["l"])["k"] == "member" and root_var(n["l"]) == v:
                            m = strip_casts(n["l"])
                            while strip_casts(m["base"])["k"] == "member":
                                m = strip_casts(m["base"])
                            stored = stored | {m["field"]}
                        if n["k"] == "call" and n is not strip_casts(node["r"]):
                            for a in n.get("args", ()):
                                a2 = strip_casts(a)
                                if a2 is not None and a2["k"] == "ref" and a2["name"] == v:
                                    stored = stored | need                 # handed to a function (memset, an init helper)
                                if a2 is not None and a2["k"] == "un" and a2.get("op") == "&" and root_var(a2) == v:
                                    m = strip_casts(a2["e"])
                                    while m is not None and m["k"] in ("member", "idx") and strip_casts(m["base"])["k"] in ("member", "idx"):
                                        m = strip_casts(m["base"])
                                    if m is not None and m["k"] == "member":
                                        stored = stored | {m["field"]}
                    if stmt["k"] == "ret" and started and root_var(stmt.get("e")) == v and guards.lookup(facts, v) != 0:
                        missing.update(need - stored)
                    return [(guards.transfer(facts, stmt), started, stored)]

                def on_edge(st, b, to, on):
                    f2 = guards.edge_assume(st[0], b, on)
                    return None if f2 is None else (f2, st[1], st[2])
                Flow(fn, [(guards.EMPTY, False, frozenset())], on_stmt, on_edge, max_states=20000).run()
                if missing:
                    out.append((fn, v, rec, alloc, sorted(missing), line(node)))
    return seen, out


def check_zero_init(rep, rule, prog, units, floor):
    """One obligation per unit: its record objects are zero-filled at allocation, or fully initialised before they are returned."""
    seen, bad = raw_allocations(prog, units)
    byfn = dict((b[0].name, b) for b in bad)
    for un in units:
        u = prog.units.get(un)
        if u is None:
            continue
        mine = [b for b in bad if b[0].unit is u]
        anchor = mine[0][0] if mine else sorted(u.functions.values(), key=lambda f: f.loc[0])[0]
        rep.ob(rule, anchor, "zero-init", not mine, "every record object allocated in %s is zero-filled at birth or fully stored before it is returned" % un if not mine else
               "line %d: %s allocates its %s with %s and returns it with %s never stored: the functions that read %s rely on the zero the allocation used to fill in "
               "(a recycled heap block, or a user allocator that does not clear, leaves garbage there)" % (
                   mine[0][5], mine[0][0].name, mine[0][2].rstrip("_"), mine[0][3], ", ".join(mine[0][4]), "it" if len(mine[0][4]) == 1 else "them"), mine[0][5] if mine else anchor.loc[0])
    if seen < floor:
        raise AnalysisBroken("zero-init rule: only %d record allocations found in %s (expected at least %d)" % (seen, ", ".join(units), floor))
    return seen


def id_validity_tests(unit, field):
    """Every test of an identifier field that a system call fills with `-1 on failure, any non-negative number otherwise` (System V ids,
    descriptors): 0 is a valid id - Linux gives it to the first object created in an IPC namespace, descriptor 0 is free after a
    daemon closed stdin - so a test must separate exactly {-1} (or the negatives) from the rest.
    -> (number of tests seen, [(function, node, text)] of tests that treat 0, or another valid id, as invalid)"""
    OK = {("==", -1), ("!=", -1), ("<", 0), (">=", 0), (">", -1), ("<=", -1)}
    FLIP = {"<": ">", ">": "<", "<=": ">=", ">=": "<=", "==": "==", "!=": "!="}
    seen, bad = 0, []
    for f in sorted(unit.functions.values(), key=lambda f_: f_.loc[0]):
        def is_id(e):
            e = strip_casts(e)
            return e is not None and e["k"] == "member" and e["field"] == field
        for b in f.blocks.values():
            if b.cond is not None and is_id(b.cond):
                seen += 1
                bad.append((f, b.cond, "tested for truth"))
        for (b, i, n) in f.nodes(elsewhere=True):
            if n["k"] == "bin" and n["op"] in FLIP:
                for s_, o_ in (("l", "r"), ("r", "l")):
                    if is_id(n[s_]) and cv(n[o_]) is not None:
                        seen += 1
                        op = n["op"] if s_ == "l" else FLIP[n["op"]]
                        if (op, cv(n[o_])) not in OK:
                            bad.append((f, n, "%s %s %d" % (field, op, cv(n[o_]))))
            elif n["k"] == "un" and n.get("op") == "!" and is_id(n["e"]):
                seen += 1
                bad.append((f, n, "negated"))
    return seen, bad


def array_bounds(fn, max_states=6000):
    """Subscripts of fixed-size arrays (locals, record members) whose index is a constant or a variable (+ constant) for which the path
    carries an upper bound (`i < K`, `i <= K`, `i == v`): the largest index reachable must lie inside the array.
    -> (number of subscripts judged, [(node, array text, size, largest index)]); subscripts without a known bound are not judged."""
    u = fn.unit
    judged = set()
    bad = {}

    def size_of(base):
        t = u.type_of(strip_casts(base))
        return t.get("n") if t and t.get("k") == "arr" and t.get("n") else None

    loops = fn.loops()
    upd = {}        # variable -> [(block id, step or None)]
    inits = {}      # variable -> [(block id, constant)]
    for (b_, i_, n_) in fn.nodes(elsewhere=True):
        if n_["k"] == "un" and ("++" in n_["op"] or "--" in n_["op"]) and strip_casts(n_["e"])["k"] == "ref":
            upd.setdefault(strip_casts(n_["e"])["name"], []).append((b_.id, 1 if "++" in n_["op"] else None))
        elif n_["k"] == "asg" and strip_casts(n_["l"])["k"] == "ref":
            v_ = strip_casts(n_["l"])["name"]
            if n_["op"] == "+=" and cv(n_["r"]) is not None and cv(n_["r"]) > 0:
                upd.setdefault(v_, []).append((b_.id, cv(n_["r"])))
            elif n_["op"] == "=" and cv(n_["r"]) is not None:
                inits.setdefault(v_, []).append((b_.id, cv(n_["r"])))
            else:
                r_ = strip_casts(n_["r"])
                if n_["op"] == "=" and r_ is not None and r_["k"] == "bin" and r_["op"] == "+" and root_var(r_["l"]) == v_ and cv(r_["r"]) is not None and cv(r_["r"]) > 0:
                    upd.setdefault(v_, []).append((b_.id, cv(r_["r"])))
                else:
                    upd.setdefault(v_, []).append((b_.id, None))

    def largest(var, bid, K):
        """largest value of var below K at block bid, given the stride of the innermost loop around bid"""
        inner = None
        for (h, body) in loops:
            if bid in body and (inner is None or len(body) < len(inner[1])):
                inner = (h, body)
        if inner is None:
            return K - 1
        steps = set(s_ for (ub, s_) in upd.get(var, ()) if ub in inner[1])
        if not steps or steps == {1}:
            return K - 1
        if None in steps or len(steps) != 1:
            return K - 1
        s_ = steps.pop()
        cands = [(ib, c_) for (ib, c_) in inits.get(var, ()) if ib not in inner[1] and fn.dominates(ib, inner[0])]
        if not cands:
            return K - 1
        best = cands[0]
        for c_ in cands[1:]:
            if fn.dominates(best[0], c_[0]):
                best = c_
        i0 = best[1]
        return K - 1 if K - 1 < i0 else i0 + s_ * ((K - 1 - i0) // s_)

    def on_stmt(st, b, i, stmt):
        for n in walk(stmt):
            if n["k"] != "idx":
                continue
            nsz = size_of(n["base"])
            if not nsz:
                continue
            ix = strip_casts(n["i"])
            c = 0
            if ix is not None and ix["k"] == "bin" and ix["op"] in ("+", "-") and cv(ix["r"]) is not None:
                c = cv(ix["r"]) if ix["op"] == "+" else -cv(ix["r"])
                ix = strip_casts(ix["l"])
            if cv(n["i"]) is not None:
                hi = cv(n["i"])
            elif ix is not None and ix["k"] == "ref":
                hi = None
                for (fk, fop, fv) in st:
                    if fk == ix["name"] and isinstance(fv, int):
                        if fop == "==":
                            hi = fv
                            break
                        if fop == "<":
                            hv = largest(ix["name"], b.id, fv)
                            hi = hv if hi is None else min(hi, hv)
                        elif fop == "<=":
                            hv = largest(ix["name"], b.id, fv + 1)
                            hi = hv if hi is None else min(hi, hv)
                if hi is None:
                    continue
                hi += c
            else:
                continue
            judged.add(id(n))
            if hi >= nsz and id(n) not in bad:
                bad[id(n)] = (n, show(n["base"]), nsz, hi)
        return [guards.transfer(st, stmt)]
    try:
        Flow(fn, [guards.EMPTY], on_stmt, lambda st, b, to, on: guards.edge_assume(st, b, on), max_states=max_states).run()
    except AnalysisBroken:
        pass            # what was judged until then stands; the rest is not judged
    return len(judged), list(bad.values())


def error_paths_fail(fn, max_states=20000):
    """The library's error contract: a call that fills in its `PError **` argument has failed.  On every path of fn on which
    p_error_set_error_p was called with fn's own error parameter, the value returned is a failure value (FALSE / NULL / a negative
    constant).  -> (number of error-setting paths judged, [(line of the return, returned text, line of the error report)])"""
    ep = [p_["name"] for p_ in fn.d.get("params", []) if "PError" in (p_.get("ts") or "")]
    if not ep or (fn.d.get("ret_ts") or fn.d.get("rts") or "") == "void":
        return 0, []
    ep = ep[0]
    judged = [0]
    bad = []

    def on_stmt(st, b, i, stmt):
        facts, setat, passed = st
        for c in calls(stmt):
            if c.get("callee") == "p_error_set_error_p" and c.get("args") and root_var(c["args"][0]) == ep:
                setat = line(c)
            elif c.get("callee") and any(strip_casts(a) is not None and strip_casts(a)["k"] == "ref" and strip_casts(a)["name"] == ep for a in c.get("args", ())):
                passed = passed | {(guards.key(c), line(c))}           # a callee that reports through the same argument when it fails
        if stmt["k"] == "ret":
            if setat is None:
                for (k_, ln_) in sorted(passed):
                    failed = guards.lookup(facts, k_) == 0 or any(fop == "=:" and fv == k_ and guards.lookup(facts, fk) == 0 for (fk, fop, fv) in facts)
                    if failed:
                        setat = ln_
            if setat is not None and stmt.get("e") is not None:
                judged[0] += 1
                v = cv(stmt["e"])
                if v is None:
                    v = guards.eval_const(stmt["e"], facts)
                if v is None or v > 0:
                    bad.append((line(stmt), show(stmt["e"]), setat))
            return []
        return [(guards.transfer(facts, stmt), setat, passed)]

    def on_edge(st, b, to, on):
        f2 = guards.edge_assume(st[0], b, on)
        return None if f2 is None else (f2, st[1], st[2])
    try:
        Flow(fn, [(guards.EMPTY, None, frozenset())], on_stmt, on_edge, max_states=max_states).run()
    except AnalysisBroken:
        return 0, []
    seen = set()
    out = []
    for x in bad:
        if x[0] not in seen:
            seen.add(x[0])
            out.append(x)
    return judged[0], out


def check_error_contract(rep, rule, prog, units, floor):
    """One obligation per unit: every path that reports through the error argument returns a failure value."""
    total = 0
    for un in units:
        u = prog.units.get(un)
        if u is None:
            continue
        j, bad = 0, []
        for fn in sorted(u.functions.values(), key=lambda f: f.loc[0]):
            a, b = error_paths_fail(fn)
            if b:
                # `return helper (obj, val == 0);` - what a static helper hands back is judged with the helper folded in
                try:
                    a2, b2 = error_paths_fail(fn.inlined())
                    if a2 >= 1:
                        a, b = a2, b2
                except AnalysisBroken:
                    pass
            j += a
            bad += [(fn,) + x for x in b]
        total += j
        anchor = bad[0][0] if bad else sorted(u.functions.values(), key=lambda f: f.loc[0])[0]
        rep.ob(rule, anchor, "errors:fail", not bad, "%d paths of %s that fill in the error argument return a failure value" % (j, un) if not bad else
               "line %d: %s returns %s on a path that reported an error at line %d: the caller is told the call succeeded and goes on with an object the failure path has "
               "already cleaned up (or never finished)" % (bad[0][1], bad[0][0].name, bad[0][2], bad[0][3]), bad[0][1] if bad else anchor.loc[0])
    if total < floor:
        raise AnalysisBroken("error contract: only %d error-reporting paths found in %s (expected at least %d)" % (total, ", ".join(units), floor))


ZERO_OR_MINUS1 = ("setsockopt", "getsockopt", "bind", "listen", "shutdown", "getsockname", "getpeername", "connect", "fcntl", "ftruncate", "fstat", "munmap",
                  "sem_close", "sem_unlink", "sem_post", "sem_wait", "shm_unlink", "close", "closedir", "pthread_mutex_lock", "pthread_mutex_unlock")
FD_OR_MINUS1 = ("socket", "accept", "accept4", "shm_open", "open", "dup")


def result_tests(unit):
    """Comparisons of a libc call's result with a constant, for calls that return 0 (or a descriptor) on success and -1 on failure: the
    test must put 0 on the success side.  (`setsockopt (...) <= 0` reads a success as a failure: the option is set in the kernel and not
    recorded in the object; `socket (...) <= 0` loses descriptor 0.)  -> (tests seen, [(function, node, text)])"""
    OKZ = {("<", 0), ("==", -1), ("!=", 0), ("==", 0), (">=", 0), ("!=", -1), (">", -1), ("<=", -1)}
    OKFD = {("<", 0), ("==", -1), (">=", 0), ("!=", -1), (">", -1), ("<=", -1)}
    FLIP = {"<": ">", ">": "<", "<=": ">=", ">=": "<=", "==": "==", "!=": "!="}
    seen, bad = 0, []
    for f in sorted(unit.functions.values(), key=lambda f_: f_.loc[0]):
        for (b, i, n) in f.nodes(elsewhere=True):
            if n["k"] != "bin" or n["op"] not in FLIP:
                continue
            for s_, o_ in (("l", "r"), ("r", "l")):
                e = strip_casts(n[s_])
                if e is not None and e["k"] == "asg":
                    e = strip_casts(e["r"])
                if e is None or e["k"] != "call" or cv(n[o_]) is None:
                    continue
                cn = e.get("callee")
                if cn not in ZERO_OR_MINUS1 and cn not in FD_OR_MINUS1:
                    continue
                seen += 1
                op = n["op"] if s_ == "l" else FLIP[n["op"]]
                if (op, cv(n[o_])) not in (OKZ if cn in ZERO_OR_MINUS1 else OKFD):
                    bad.append((f, n, "%s (...) %s %d" % (cn, op, cv(n[o_]))))
    return seen, bad


def destroy_before_free(fn, destroy_callee):
    """In an object's free function the native object is destroyed before the memory goes: on every path with a non-NULL argument
    `destroy_callee (&obj->...)` is called and `p_free (obj)` only afterwards.  (pthread_cond_destroy is more than bookkeeping: glibc
    makes it wait until every waiter that was already woken has left the condition variable, so freeing without it pulls the memory
    from under threads the last broadcast woke.)  -> list of (line, what) problems"""
    p0 = fn.param_names()[0] if fn.param_names() else None
    bad = []

    def on_stmt(st, b, i, stmt):
        facts, destroyed, freed = st
        for c in calls(stmt):
            a0 = strip_casts(c["args"][0]) if c.get("args") else None
            if a0 is not None and a0["k"] == "ref" and a0.get("decl") == "local":
                a0 = fn.resolve(a0) or a0            # `native = &obj->hdl; destroy (native);`
            if c.get("callee") == destroy_callee and a0 is not None and root_var(a0) == p0:
                if freed:
                    bad.append((line(c), "%s runs after the object was released" % destroy_callee))
                destroyed = True
            if c.get("callee") == "p_free" and c.get("args") and root_var(c["args"][0]) == p0 and strip_casts(c["args"][0])["k"] == "ref":
                if not destroyed:
                    bad.append((line(c), "the object is released without %s having been called on this path" % destroy_callee))
                freed = True
        return [(guards.transfer(facts, stmt), destroyed, freed)]

    def on_edge(st, b, to, on):
        f2 = guards.edge_assume(st[0], b, on)
        return None if f2 is None else (f2, st[1], st[2])
    if p0 is None:
        return [(fn.loc[0], "no parameter")]
    Flow(fn, [(guards.EMPTY, False, False)], on_stmt, on_edge).run()
    if not any(c.get("callee") == "p_free" for (b, i, c) in fn.calls()):
        bad.append((fn.loc[0], "the object is never released"))
    seen, out = set(), []
    for x in bad:
        if x not in seen:
            seen.add(x)
            out.append(x)
    return out


def shutdown_resets(fn):
    """Globals whose object a shutdown function releases (`X_free (G)`) are stored NULL afterwards on every path: the matching init
    creates the object only when the pointer is NULL, so a dangling pointer survives the next init and every lock on the destroyed
    object fails silently.  -> [(global, line of the release)] for releases not followed by the reset"""
    bad = []
    rels = []

    def glob_of(e):
        """(global designated, reached through a value copy?) - `G`, `tmp` with `tmp = G`, `*slot` with `slot = &G`"""
        e = strip_casts(e)
        if e is None:
            return None, False
        if e["k"] == "ref" and e.get("decl") == "global":
            return e["name"], False
        if e["k"] == "ref" and e.get("decl") in ("local", "param"):
            r = strip_casts(fn.resolve(e))
            if r is not None and r["k"] == "ref" and r.get("decl") == "global":
                return r["name"], True
        if e["k"] == "un" and e.get("op") == "*":
            p_ = strip_casts(e["e"])
            if p_ is not None and p_["k"] == "ref":
                r = strip_casts(fn.resolve(p_)) if p_.get("decl") != "global" else None
                if r is not None and r["k"] == "un" and r.get("op") == "&":
                    g_ = strip_casts(r["e"])
                    if g_ is not None and g_["k"] == "ref" and g_.get("decl") == "global":
                        return g_["name"], False
        return None, False
    for (b, i, c) in fn.calls():
        cn = c.get("callee") or ""
        if cn.endswith("_free") and c.get("args"):
            g, copied = glob_of(c["args"][0])
            if g is not None:
                rels.append((b, i, c, g, copied))
    for (b, i, c, g, copied) in rels:
        resets = [(b2, i2) for (b2, i2, n) in fn.nodes(elsewhere=True) if n["k"] == "asg" and n.get("op") == "=" and cv(n["r"]) == 0
                  and glob_of(n["l"]) == (g, False)]
        if not any(fn.postdominates(b2.id, b.id) or (b2.id == b.id and i2 > i) or (copied and fn.pos_dominates((b2.id, i2), (b.id, i))) for (b2, i2) in resets):
            bad.append((g, line(c)))
    return len(rels), bad


def clean_covers_create(unit, create_name, clean_name):
    """Sibling agreement of a handle's create and clean-up helpers: every field of the object the create helper stores is stored
    by the clean-up helper too.  The recovery paths run clean-up and
    then create again on the same object, and create decides by what it finds in those fields (an ownership flag left TRUE makes
    the re-created handle reset the counter and remove the object at free).  -> (fields compared, [fields not reset])"""
    cr = unit.fn(create_name)             # folded-in view: the stores may sit in `open_existing (h)` / `create_new (h)` helpers
    cl = unit.fn(clean_name)              # with its own static helpers folded in: a `reset_fields (h)` helper counts

    def stores(f):
        names = f.copies_of(f.param_names()[0])
        out = {}
        for (b, i, n) in f.nodes(elsewhere=True):
            if n["k"] == "asg" and strip_casts(n["l"]) is not None and strip_casts(n["l"])["k"] == "member" and root_var(n["l"]) in names:
                out.setdefault(strip_casts(n["l"])["field"], []).append((b, i, n))
        return out
    want = stores(cr)
    have = stores(cl)
    if any(c.get("callee") in ("memset", "__builtin_memset", "__builtin___memset_chk") and root_var(c["args"][0]) in cl.copies_of(cl.param_names()[0]) for (b, i, c) in cl.calls()):
        return len(want), []              # the whole object is wiped
    missing = []
    for fld in sorted(want):
        # a reset under a test of the field itself (`if (h->sem != NULL) { free (h->sem); h->sem = NULL; }`) is a reset: presence is asked
        if not have.get(fld):
            missing.append(fld)
    return len(want), missing

