"""In-memory program representation built from pfx facts, expression helpers
and the CFG analyses (dominators, post-dominators, loops, reachability)."""
import os

from .units import AnalysisBroken

# ---------------------------------------------------------------------------
# expressions (plain dicts from pfx); helpers
# ---------------------------------------------------------------------------

VALUE_PRESERVING_CASTS = ("NoOp", "LValueToRValue", "BitCast", "NullToPointer",
                          "IntegralToPointer", "PointerToIntegral", "ToVoid",
                          "IntegralToBoolean", "PointerToBoolean")


def strip_expect(e):
    """Remove parentheses-level noise: __builtin_expect(!!(x), n) -> x,
    casts to long of booleans, double negation."""
    while True:
        if e is None:
            return e
        k = e["k"]
        if k == "call" and e.get("callee") == "__builtin_expect" and e["args"]:
            e = e["args"][0]
            continue
        if k == "cast" and not e["explicit"] and e["ck"] in ("IntegralCast", "NoOp", "LValueToRValue", "IntegralToBoolean", "BooleanToSignedIntegral"):
            inner = e["e"]
            # implicit widening of a boolean/logical result carries no information
            ik = inner["k"]
            if (ik == "un" and inner["op"] == "!") or (ik == "bin" and inner["op"] in ("==", "!=", "<", ">", "<=", ">=", "&&", "||")) \
                    or (ik == "call" and inner.get("callee") == "__builtin_expect"):
                e = inner
                continue
            return e
        if k == "un" and e["op"] == "!" and e["e"]["k"] == "un" and e["e"]["op"] == "!":
            e = e["e"]["e"]
            continue
        return e


def strip_casts(e, explicit=True):
    """Strip casts (implicit always; explicit when asked) and expect-noise."""
    while e is not None:
        e = strip_expect(e)
        if e["k"] == "cast" and (explicit or not e["explicit"]):
            e = e["e"]
            continue
        return e
    return e


def walk(e, elsewhere=False):
    """Pre-order walk over an expression tree. Sub-expressions that the CFG
    evaluates in another block (flag x) are skipped unless elsewhere=True."""
    if e is None:
        return
    stack = [e]
    while stack:
        n = stack.pop()
        if n is None:
            continue
        if n.get("x") and not elsewhere and n is not e:
            continue
        yield n
        k = n["k"]
        if k in ("bin", "asg"):
            stack.append(n["r"])
            stack.append(n["l"])
        elif k in ("un", "cast", "ret", "complit", "vaarg"):
            if n.get("e") is not None:
                stack.append(n["e"])
        elif k == "member":
            stack.append(n["base"])
        elif k == "call":
            for a in reversed(n["args"]):
                stack.append(a)
            if n.get("fnptr") is not None:
                stack.append(n["fnptr"])
        elif k == "cond":
            stack.append(n["b"])
            stack.append(n["a"])
            stack.append(n["c"])
        elif k == "idx":
            stack.append(n["i"])
            stack.append(n["base"])
        elif k == "decl":
            if n.get("init") is not None:
                stack.append(n["init"])
        elif k in ("seq", "init"):
            for a in reversed(n.get("items", [])):
                stack.append(a)
        elif k == "other":
            for a in reversed(n.get("ch", [])):
                stack.append(a)
        # sizeof operands are unevaluated: not walked


def calls(e, name=None, elsewhere=False):
    for n in walk(e, elsewhere):
        if n["k"] == "call" and (name is None or n.get("callee") == name or
                                 (isinstance(name, (set, frozenset, tuple, list)) and n.get("callee") in name)):
            yield n


def cv(e):
    """Constant value of an expression (as folded by clang), or None."""
    if e is None:
        return None
    if "cv" in e:
        return e["cv"]
    if e["k"] == "int" and "v" in e:
        return e["v"]
    s = strip_casts(e)
    if s is not e and s is not None:
        if "cv" in s:
            return s["cv"]
        if s["k"] == "int" and "v" in s:
            return s["v"]
    return None


def ap(e):
    """Access path of an lvalue-like expression as a string, or None."""
    e = strip_casts(e)
    if e is None:
        return None
    k = e["k"]
    if k == "ref":
        return e["name"]
    if k == "member":
        b = ap(e["base"])
        if b is None:
            return None
        return b + ("->" if e["arrow"] else ".") + e["field"]
    if k == "un" and e["op"] == "*":
        b = ap(e["e"])
        return None if b is None else "*" + b
    if k == "un" and e["op"] == "&":
        b = ap(e["e"])
        return None if b is None else "&" + b
    if k == "idx":
        b = ap(e["base"])
        i = e["i"]
        iv = cv(i)
        ia = ap(i) if iv is None else str(iv)
        if b is None or ia is None:
            return None
        return "%s[%s]" % (b, ia)
    return None


def root_var(e):
    """Name of the variable at the root of an access path expression."""
    e = strip_casts(e)
    while e is not None:
        k = e["k"]
        if k == "ref":
            return e["name"]
        if k == "member":
            e = strip_casts(e["base"])
        elif k == "un" and e["op"] in ("*", "&"):
            e = strip_casts(e["e"])
        elif k == "idx":
            e = strip_casts(e["base"])
        elif k == "bin" and e["op"] in ("+", "-"):
            e = strip_casts(e["l"])
        elif k == "complit":
            # transparent-union argument (glibc __SOCKADDR_ARG): (union){ ptr }
            e = strip_casts(e["e"])
        elif k == "init" and len(e.get("items", [])) == 1:
            e = strip_casts(e["items"][0])
        else:
            return None
    return None


def show(e):
    if e is None:
        return "<none>"
    k = e["k"]
    if k == "ref":
        return e["name"]
    if k == "int":
        return str(e.get("v", e.get("vs")))
    if k == "member":
        return show(e["base"]) + ("->" if e["arrow"] else ".") + e["field"]
    if k == "un":
        op = e["op"]
        if op.startswith("post"):
            return show(e["e"]) + op[4:]
        if op.startswith("pre"):
            return op[3:] + show(e["e"])
        return op + show(e["e"])
    if k in ("bin", "asg"):
        return "(%s %s %s)" % (show(e["l"]), e["op"], show(e["r"]))
    if k == "call":
        c = e.get("callee") or "(*%s)" % show(e.get("fnptr"))
        return "%s (%s)" % (c, ", ".join(show(a) for a in e["args"]))
    if k == "cast":
        return ("(%s) %s" % (e["ts"], show(e["e"]))) if e["explicit"] else show(e["e"])
    if k == "decl":
        return "%s %s%s" % (e.get("ts", "?"), e["name"], (" = " + show(e["init"])) if e.get("init") is not None else "")
    if k == "ret":
        return "return " + (show(e["e"]) if e.get("e") is not None else "")
    if k == "cond":
        return "(%s ? %s : %s)" % (show(e["c"]), show(e["a"]), show(e["b"]))
    if k == "idx":
        return "%s[%s]" % (show(e["base"]), show(e["i"]))
    if k == "sizeof":
        return "sizeof (%s)" % e.get("ofs", e.get("of", "?"))
    if k == "offsetof":
        return "offsetof (...) = %s" % e.get("cv")
    if k == "str":
        return '"%s"' % (e.get("v", "") or "").replace("\n", "\\n")
    return "<%s>" % k


def line(e):
    loc = e.get("loc") if e else None
    return loc[0] if loc else 0


def conjuncts(e):
    """Atomic conditions that all hold when `e` is true: splits && (looking through P_LIKELY-style wrappers and !!)."""
    e = strip_casts(e, explicit=False)
    if e is None:
        return []
    if e["k"] == "bin" and e["op"] == "&&":
        return conjuncts(e["l"]) + conjuncts(e["r"])
    return [e]


def true_edge_guards(fn, target_bid, pred):
    """Blocks whose true edge every path from the entry to block `target_bid` must take and whose condition has a conjunct
    satisfying `pred`; returns the list of matching conjunct expressions."""
    out = []
    for gb in fn.blocks.values():
        c = gb.cond
        if c is None:
            continue
        hits = [x for x in conjuncts(c) if pred(x)]
        if not hits:
            continue
        tt = [to for (to, on) in gb.succs if on == "true"]
        if not tt:
            continue
        seen, work = set(), [fn.entry]
        while work:
            x = work.pop()
            if x in seen:
                continue
            seen.add(x)
            for (to, on) in fn.blocks[x].succs:
                if (x, to) != (gb.id, tt[0]):
                    work.append(to)
        if target_bid not in seen:
            out.extend(hits)
    return out


def is_call(e, name=None):
    e = strip_casts(e)
    if e is None or e["k"] != "call":
        return False
    if name is None:
        return True
    if isinstance(name, str):
        return e.get("callee") == name
    return e.get("callee") in name


def assigned_call(stmt):
    """For `v = f(...)`, `T v = f(...)`, returns (target expr-or-name, call)."""
    s = strip_casts(stmt)
    if s is None:
        return None
    if s["k"] == "asg" and s["op"] == "=":
        r = strip_casts(s["r"])
        if r is not None and r["k"] == "call":
            return (s["l"], r)
    if s["k"] == "decl" and s.get("init") is not None:
        r = strip_casts(s["init"])
        if r is not None and r["k"] == "call":
            return ({"k": "ref", "name": s["name"], "decl": "local"}, r)
    return None


NEG = {"==": "!=", "!=": "==", "<": ">=", ">=": "<", ">": "<=", "<=": ">"}
SWAP = {"==": "==", "!=": "!=", "<": ">", ">": "<", "<=": ">=", ">=": "<="}


def atoms(cond, truth=True):
    """Atomic facts (lhs_expr, op, rhs_expr) that hold when `cond` evaluates
    to `truth`.  Handles !, ==/!= against constants, embedded assignments,
    && under true and || under false. lhs of an embedded assignment yields
    facts for both the assigned variable and the assigned value."""
    out = []
    c = strip_expect(cond)
    if c is None:
        return out
    k = c["k"]
    if k == "cast" and c["ck"] in ("IntegralCast", "IntegralToBoolean", "PointerToBoolean", "NoOp", "BooleanToSignedIntegral"):
        return atoms(c["e"], truth)
    if k == "un" and c["op"] == "!":
        return atoms(c["e"], not truth)
    if k == "bin" and c["op"] == "&&":
        if truth:
            return atoms(c["l"], True) + atoms(c["r"], True)
        return out
    if k == "bin" and c["op"] == "||":
        if not truth:
            return atoms(c["l"], False) + atoms(c["r"], False)
        return out
    if k == "bin" and c["op"] in NEG:
        op = c["op"] if truth else NEG[c["op"]]
        l, r = c["l"], c["r"]
        # boolean comparison against constant: (x == FALSE) etc.
        rv = cv(r)
        ls = strip_expect(l)
        if rv is not None and op in ("==", "!=") and ls is not None:
            lk = strip_casts(ls, explicit=False)
            if lk is not None and (lk["k"] == "un" and lk["op"] == "!" or (lk["k"] == "bin" and lk["op"] in NEG) or (lk["k"] == "bin" and lk["op"] in ("&&", "||"))):
                # (boolexpr) == 0  -> boolexpr false ; != 0 -> true ; == 1 -> true
                if rv == 0:
                    return atoms(lk, op == "!=")
                if rv == 1:
                    return atoms(lk, op == "==")
        out.append((l, op, r))
        # embedded assignment: ((v = f()) == C)
        la = strip_casts(l)
        if la is not None and la["k"] == "asg" and la["op"] == "=":
            out.append((la["l"], op, r))
            out.append((la["r"], op, r))
        return out
    if k == "asg" and c["op"] == "=":
        zero = {"k": "int", "v": 0}
        op = "!=" if truth else "=="
        return [(c["l"], op, zero), (c["r"], op, zero)]
    # plain truthiness
    zero = {"k": "int", "v": 0}
    out.append((c, "!=" if truth else "==", zero))
    return out


# ---------------------------------------------------------------------------
# program objects
# ---------------------------------------------------------------------------

class Block:
    __slots__ = ("id", "stmts", "term", "succs", "label", "preds", "func")

    def __init__(self, d, func):
        self.id = d["id"]
        self.stmts = d["stmts"]
        self.term = d.get("term")
        self.label = d.get("label")
        self.succs = [(s["to"], s.get("on", "")) for s in d["succs"] if not s.get("unreachable")]
        self.preds = []
        self.func = func

    @property
    def cond(self):
        """Terminator condition expression or None."""
        t = self.term
        if not t:
            return None
        ci = t.get("ci", -1)
        if ci is not None and ci >= 0 and ci < len(self.stmts):
            return self.stmts[ci]
        return t.get("cond")

    def line(self):
        for s in self.stmts:
            l = line(s)
            if l:
                return l
        if self.term and self.term.get("loc"):
            return self.term["loc"][0]
        return 0


class Function:
    def __init__(self, d, unit):
        self.d = d
        self.unit = unit
        self.name = d["name"]
        self.static = d.get("static", False)
        self.api = d.get("api", False)
        self.params = d.get("params", [])
        self.loc = d.get("loc", [0, 0])
        if d.get("cfg_error") or "blocks" not in d:
            raise AnalysisBroken("no CFG for %s in %s" % (self.name, unit.name))
        self.blocks = {b["id"]: Block(b, self) for b in d["blocks"]}
        self.entry = d["entry"]
        self.exit = d["exit"]
        for b in self.blocks.values():
            for (to, on) in b.succs:
                if to in self.blocks:
                    self.blocks[to].preds.append(b.id)
        self._dom = None
        self._pdom = None
        self._reach = None

    def __repr__(self):
        return "<fn %s:%s>" % (self.unit.name, self.name)

    # -- inlining of unit-local static helpers ------------------------------------
    def inlined(self, depth=3, max_blocks=80, only=None, skip=()):
        """A copy of this function in which calls to static functions of the same unit are replaced by the callee's CFG
        (parameters become renamed locals, `return e` becomes an assignment to a fresh temporary that replaces the call).
        Rules that analyse one public function path by path use this view, so that extracting part of the function into a
        static helper - or inlining one - does not change what they see."""
        base = getattr(self, "inlined_from", None) or self
        key = (depth, max_blocks, tuple(sorted(only)) if only else None, tuple(sorted(skip)))
        cache = base.__dict__.setdefault("_inl", {})
        if key in cache:
            return cache[key]
        import copy
        d = copy.deepcopy(base.d)
        counter = [0]
        for _round in range(depth):
            if not _inline_round(d, base.unit, base.name, counter, max_blocks, only, skip):
                break
        if counter[0]:
            _prune_constant_branches(d)
        _scalarise_local_records(d, base.unit)
        f = Function(d, base.unit)
        f.inlined_from = base
        cache[key] = f
        return f

    @property
    def raw(self):
        return getattr(self, "inlined_from", None) or self

    # -- iteration -------------------------------------------------------
    def reachable_blocks(self):
        if self._reach is None:
            seen = set()
            st = [self.entry]
            while st:
                b = st.pop()
                if b in seen:
                    continue
                seen.add(b)
                for (to, _) in self.blocks[b].succs:
                    st.append(to)
            self._reach = seen
        return self._reach

    def stmts(self):
        """Yield (block, index, stmt) for all reachable top-level statements."""
        for bid in sorted(self.reachable_blocks(), reverse=True):
            b = self.blocks[bid]
            for i, s in enumerate(b.stmts):
                yield b, i, s

    def nodes(self, elsewhere=False):
        """Yield (block, index, node) for every expression node."""
        for b, i, s in self.stmts():
            for n in walk(s, elsewhere):
                yield b, i, n

    def calls(self, name=None):
        for b, i, s in self.stmts():
            for c in calls(s, name):
                yield b, i, c

    def param_names(self):
        return [p["name"] for p in self.params]

    def origins(self, expr, _seen=None):
        """Leaf expressions the value of `expr` is computed from, looking through locals (every definition of a local
        contributes): parameter references, calls, members, constants."""
        seen = _seen if _seen is not None else set()
        defs = self.__dict__.get("_defs")
        if defs is None:
            defs = {}
            for b, i, s in self.stmts():
                for n in walk(s, elsewhere=True):
                    if n["k"] == "decl" and n.get("init") is not None:
                        defs.setdefault(n["name"], []).append(n["init"])
                    elif n["k"] == "asg" and strip_casts(n["l"]) is not None and strip_casts(n["l"])["k"] == "ref":
                        defs.setdefault(strip_casts(n["l"])["name"], []).append(n["r"])
            self.__dict__["_defs"] = defs
        out = []
        stack = [expr]
        while stack:
            n = stack.pop()
            if n is None:
                continue
            k = n["k"]
            if k == "call":
                out.append(n)              # a call is a leaf: what flows into its arguments is the callee's business
                continue
            if k == "ref" and n.get("decl") == "local" and n["name"] in defs:
                if n["name"] not in seen:
                    seen.add(n["name"])
                    for d_ in defs[n["name"]]:
                        out.extend(self.origins(d_, seen))
                continue
            if k in ("ref", "int"):
                out.append(n)
                continue
            if k == "member":
                out.append(n)
            for kk in ("l", "r", "e", "base", "i", "c", "a", "b", "init"):
                if isinstance(n.get(kk), dict):
                    stack.append(n[kk])
        return out

    def resolve(self, expr, _depth=0):
        """Look through casts and through locals that have exactly one definition (`T *p = (T *) arg;`, the result temporary of
        an inlined helper): the expression whose value `expr` carries."""
        e = strip_casts(expr)
        if e is None or _depth > 8 or e["k"] != "ref" or e.get("decl") != "local":
            return e
        self.origins(e)       # builds the definition table
        ds = self.__dict__.get("_defs", {}).get(e["name"], [])
        if len(ds) != 1:
            return e
        return self.resolve(ds[0], _depth + 1)

    def copies_of(self, name):
        """`name` plus every variable that may receive its value through plain copies (`b = a; c = (T) b;`)."""
        out = {name}
        changed = True
        while changed:
            changed = False
            for b, i, s in self.stmts():
                for n in walk(s, elsewhere=True):
                    tgt = src = None
                    if n["k"] == "decl" and n.get("init") is not None:
                        tgt, src = n["name"], n["init"]
                    elif n["k"] == "asg" and n["op"] == "=" and strip_casts(n["l"]) is not None and strip_casts(n["l"])["k"] == "ref":
                        tgt, src = strip_casts(n["l"])["name"], n["r"]
                    if tgt is None or tgt in out:
                        continue
                    sv = strip_casts(src)
                    if sv is not None and sv["k"] == "ref" and sv["name"] in out:
                        out.add(tgt)
                        changed = True
        return out

    def value_aliases(self, name):
        """`name` plus every local all of whose definitions are (casts of) copies of it: `T *self = arg;`"""
        out = {name}
        changed = True
        while changed:
            changed = False
            defs = {}
            for b, i, s in self.stmts():
                for n in walk(s):
                    if n["k"] == "decl" and n.get("init") is not None:
                        defs.setdefault(n["name"], []).append(n["init"])
                    elif n["k"] == "asg" and strip_casts(n["l"]) is not None and strip_casts(n["l"])["k"] == "ref":
                        defs.setdefault(strip_casts(n["l"])["name"], []).append(n["r"] if n["op"] == "=" else None)
                    elif n["k"] == "un" and ("++" in n["op"] or "--" in n["op"]) and strip_casts(n["e"])["k"] == "ref":
                        defs.setdefault(strip_casts(n["e"])["name"], []).append(None)
            for v, ds in defs.items():
                if v in out or not ds or any(d is None for d in ds):
                    continue
                # every definition (usually one; one per switch arm for a typed view) is a cast of a copy of the same value
                rs = [strip_casts(d) for d in ds]
                if all(r is not None and r["k"] == "ref" and r["name"] in out and r["name"] not in defs for r in rs):
                    out.add(v)
                    changed = True
        return out

    # -- dominators ------------------------------------------------------
    def _compute_dom(self, entry, succs_of, preds_of, nodes):
        # iterative set-based dominators (functions are small)
        dom = {n: set(nodes) for n in nodes}
        dom[entry] = {entry}
        changed = True
        order = list(nodes)
        while changed:
            changed = False
            for n in order:
                if n == entry:
                    continue
                ps = [p for p in preds_of(n) if p in dom]
                if ps:
                    new = set.intersection(*[dom[p] for p in ps]) | {n}
                else:
                    new = {n}
                if new != dom[n]:
                    dom[n] = new
                    changed = True
        return dom

    def dom(self):
        if self._dom is None:
            nodes = sorted(self.reachable_blocks(), reverse=True)
            self._dom = self._compute_dom(
                self.entry,
                lambda n: [t for (t, _) in self.blocks[n].succs],
                lambda n: [p for p in self.blocks[n].preds if p in self.reachable_blocks()],
                nodes)
        return self._dom

    def pdom(self):
        if self._pdom is None:
            reach = self.reachable_blocks()
            # nodes that can reach exit
            nodes = set()
            st = [self.exit]
            while st:
                b = st.pop()
                if b in nodes or b not in reach:
                    continue
                nodes.add(b)
                for p in self.blocks[b].preds:
                    st.append(p)
            nodes = sorted(nodes)
            self._pdom = self._compute_dom(
                self.exit,
                lambda n: [p for p in self.blocks[n].preds],
                lambda n: [t for (t, _) in self.blocks[n].succs if t in nodes],
                nodes)
        return self._pdom

    def dominates(self, a, b):
        """block a dominates block b"""
        return a in self.dom().get(b, ())

    def postdominates(self, a, b):
        return a in self.pdom().get(b, ())

    def pos_dominates(self, pa, pb):
        """(block, idx) position pa dominates position pb."""
        (ba, ia), (bb, ib) = pa, pb
        if ba == bb:
            return ia <= ib
        return self.dominates(ba, bb)

    def back_edges(self):
        out = []
        for b in self.reachable_blocks():
            for (to, on) in self.blocks[b].succs:
                if self.dominates(to, b):
                    out.append((b, to))
        return out

    def loops(self):
        """Natural loops: list of (header, set_of_blocks)."""
        res = {}
        for (src, hdr) in self.back_edges():
            body = {hdr}
            st = [src]
            while st:
                n = st.pop()
                if n in body:
                    continue
                body.add(n)
                for p in self.blocks[n].preds:
                    if p in self.reachable_blocks():
                        st.append(p)
            res.setdefault(hdr, set()).update(body)
        return list(res.items())

    def in_loop(self, bid):
        return any(bid in body for (_, body) in self.loops())

    def reach_from(self, start_blocks, avoid=()):
        """Blocks reachable from the successors of nothing: from start_blocks
        themselves (inclusive), not passing through `avoid` blocks."""
        seen = set()
        st = list(start_blocks)
        avoid = set(avoid)
        while st:
            b = st.pop()
            if b in seen or b in avoid:
                continue
            seen.add(b)
            for (to, _) in self.blocks[b].succs:
                st.append(to)
        return seen

    def exit_preds(self):
        return [p for p in self.blocks[self.exit].preds if p in self.reachable_blocks()]

    def returns(self):
        """Yield (block, idx, ret_stmt) for every reachable return."""
        for b, i, s in self.stmts():
            if s["k"] == "ret":
                yield b, i, s

    def where(self, e_or_line):
        l = e_or_line if isinstance(e_or_line, int) else line(e_or_line)
        return "%s:%d" % (self.unit.relpath, l)


def _fold(e):
    """Value of an expression made of constants only (after a constant argument was substituted for a parameter), else None."""
    if e is None:
        return None
    k = e["k"]
    if k == "call" and e.get("callee") == "__builtin_expect" and e.get("args"):
        return _fold(e["args"][0])
    if k == "int":
        return e.get("v", e.get("cv"))
    if k == "cast":
        return _fold(e["e"])
    if k == "ref":
        return e.get("cv") if e.get("decl") == "enumconst" else None
    if k == "un" and e["op"] in ("!", "-", "~", "+"):
        v = _fold(e["e"])
        if v is None:
            return None
        return {"!": int(not v), "-": -v, "~": ~v, "+": v}[e["op"]]
    if k == "bin" and e["op"] in ("==", "!=", "<", ">", "<=", ">=", "&&", "||", "&", "|", "+", "-"):
        l, r = _fold(e["l"]), _fold(e["r"])
        if e["op"] == "&&" and (l == 0 or r == 0):
            return 0
        if e["op"] == "||" and ((l is not None and l != 0) or (r is not None and r != 0)):
            return 1
        if l is None or r is None:
            return None
        return int({"==": l == r, "!=": l != r, "<": l < r, ">": l > r, "<=": l <= r, ">=": l >= r, "&&": bool(l and r), "||": bool(l or r),
                    "&": l & r, "|": l | r, "+": l + r, "-": l - r}[e["op"]])
    return None


def _prune_constant_branches(d):
    """After inlining with constant arguments some branch conditions are constants: the edge not taken is marked unreachable
    (a helper `wake (cond, TRUE)` that signals or broadcasts depending on its flag contributes only the branch that runs)."""
    for b in d["blocks"]:
        t = b.get("term")
        if not t or len(b.get("succs", [])) < 2:
            continue
        ci = t.get("ci", -1)
        if ci is None or ci < 0 or ci >= len(b["stmts"]):
            continue
        c = b["stmts"][ci]
        if not any(n.get("_caller") for n in _walk_all(c)):
            continue                      # only conditions that became constant through a substituted argument
        v = _fold(c)
        if v is None:
            continue
        labels = [s_.get("on", "") for s_ in b["succs"]]
        if any(l.startswith("case:") or l == "default" for l in labels):
            want = "case:%d" % v
            keep = want if want in labels else "default"
            for s_ in b["succs"]:
                if s_.get("on", "") != keep:
                    s_["unreachable"] = True
        else:
            keep = "true" if v else "false"
            for s_ in b["succs"]:
                if s_.get("on", "") in ("true", "false") and s_["on"] != keep:
                    s_["unreachable"] = True


def _scalarise_local_records(d, unit):
    """Normal form: a local struct that is only ever used member by member (`w.node`, `w.count` - its address is never taken, it
    is never copied, passed or returned as a whole) is replaced by one local per member, named `w.node`.  Keeping traversal state
    or a pair of temporaries in a local struct then reads the same as keeping them in plain locals."""
    recs = {}
    for b in d["blocks"]:
        for s_ in b["stmts"]:
            for n in _walk_all(s_):
                if n["k"] == "decl" and n.get("name"):
                    t = unit.types[n["t"]] if n.get("t") is not None and n["t"] < len(unit.types) else None
                    if t and t.get("k") == "rec" and n.get("init") is None:
                        recs[n["name"]] = t.get("rec")
    if not recs:
        return
    whole = set()

    def scan(e, parent_member=False):
        if isinstance(e, dict):
            if e.get("k") == "member" and not e.get("arrow") and isinstance(e.get("base"), dict) and e["base"].get("k") == "ref" and e["base"].get("name") in recs:
                return                      # w.f: fine (do not descend into the base)
            if e.get("k") == "ref" and e.get("name") in recs and e.get("decl") == "local":
                whole.add(e["name"])        # used as a whole (address taken, copied, passed, nested member chain)
            for v in e.values():
                if isinstance(v, (dict, list)):
                    scan(v)
        elif isinstance(e, list):
            for it in e:
                scan(it)
    for b in d["blocks"]:
        scan(b["stmts"])
        scan(b.get("term"))
    cand = dict((v, r) for v, r in recs.items() if v not in whole and unit.records.get(r) is not None)
    if not cand:
        return

    def rewrite(e):
        if isinstance(e, dict):
            if e.get("k") == "member" and not e.get("arrow") and isinstance(e.get("base"), dict) and e["base"].get("k") == "ref" and e["base"].get("name") in cand:
                nm = "%s.%s" % (e["base"]["name"], e["field"])
                keep = dict((k_, e[k_]) for k_ in ("loc", "t", "x", "m", "_caller") if k_ in e)
                e.clear()
                e.update(keep)
                e.update({"k": "ref", "decl": "local", "name": nm})
                return
            for v in e.values():
                if isinstance(v, (dict, list)):
                    rewrite(v)
        elif isinstance(e, list):
            for it in e:
                rewrite(it)
    for b in d["blocks"]:
        rewrite(b["stmts"])
        rewrite(b.get("term"))
        new = []
        for s_ in b["stmts"]:
            if s_.get("k") == "decl" and s_.get("name") in cand:
                for f_ in unit.records[cand[s_["name"]]].fields:
                    new.append({"k": "decl", "name": "%s.%s" % (s_["name"], f_["name"]), "t": f_.get("t", 0), "ts": f_.get("ts"), "loc": s_.get("loc")})
            else:
                new.append(s_)
        b["stmts"] = new


def _walk_all(e):
    for n in walk(e, elsewhere=True):
        yield n


def _rename_tree(e, suffix, names):
    for n in _walk_all(e):
        if n.get("_caller"):
            continue          # a variable of the caller substituted for a parameter: not the callee's local of the same name
        if n["k"] == "ref" and n.get("decl") in ("local", "param") and n["name"] in names:
            n["name"] = n["name"] + suffix
            n["decl"] = "local"
        elif n["k"] == "decl" and n["name"] in names:
            n["name"] = n["name"] + suffix


def _inline_round(d, unit, self_name, counter, max_blocks, only, skip):
    """One pass: inline every eligible call found in the blocks as they are now. Returns True when something was inlined."""
    import copy
    did = False
    blocks = {b["id"]: b for b in d["blocks"]}
    work = sorted(blocks)
    for bid in work:
        b = blocks[bid]
        i = 0
        while i < len(b["stmts"]):
            st = b["stmts"][i]
            call = None
            for n in walk(st):
                if n["k"] == "call" and n.get("callee") in unit.functions and n["callee"] != self_name:
                    cf = unit.functions[n["callee"]]
                    if not cf.static or cf.d.get("variadic") or len(cf.blocks) > max_blocks or n["callee"] in skip or (only and n["callee"] not in only):
                        continue
                    if len(n["args"]) != len(cf.params):
                        continue
                    call = n
                    break
            if call is None:
                i += 1
                continue
            cf = unit.functions[call["callee"]]
            counter[0] += 1
            k = counter[0]
            suffix = "__i%d" % k
            cd = copy.deepcopy(cf.d)
            names = set(p["name"] for p in cd.get("params", []))
            for cb in cd["blocks"]:
                for s_ in cb["stmts"]:
                    for n in _walk_all(s_):
                        if n["k"] == "decl":
                            names.add(n["name"])
            tmp = "__ret_%s_%d" % (cf.name, k)
            loc = call.get("loc", [0, 0])
            # `x = helper (...)` as a whole statement: the helper's result goes straight into x (no temporary), and when every
            # return of the helper yields one and the same local of the helper, that local *is* x
            drop_stmt = False
            unify = None
            if st["k"] == "asg" and st["op"] == "=" and st["l"]["k"] == "ref" and st["l"].get("decl") == "local":
                rr = st["r"]
                while rr is not None and rr["k"] == "cast":
                    rr = rr["e"]
                tci = (b.get("term") or {}).get("ci")
                arg_names = set(m["name"] for a_ in call["args"] for m in _walk_all(a_) if m["k"] == "ref")
                if rr is call and tci != i and st["l"]["name"] not in arg_names:
                    tmp = st["l"]["name"]
                    drop_stmt = True
                    rets = []
                    for cb in cd["blocks"]:
                        for s_ in cb["stmts"]:
                            if s_["k"] == "ret" and s_.get("e") is not None:
                                e_ = s_["e"]
                                while e_ is not None and e_["k"] == "cast":
                                    e_ = e_["e"]
                                rets.append(e_["name"] if e_ is not None and e_["k"] == "ref" and e_.get("decl") == "local" else None)
                    if rets and all(r_ is not None and r_ == rets[0] for r_ in rets):
                        unify = rets[0]
            base = max(blocks) + 1
            idmap = {cb["id"]: base + j for j, cb in enumerate(cd["blocks"])}
            cont_id = base + len(cd["blocks"])
            # continuation block: the rest of b
            ci = (b.get("term") or {}).get("ci")
            shift = i + (1 if drop_stmt else 0)
            cont = {"id": cont_id, "stmts": b["stmts"][shift:], "succs": b["succs"]}
            if b.get("term"):
                t2 = dict(b["term"])
                if ci is not None and ci >= 0:
                    t2["ci"] = ci - shift
                cont["term"] = t2
            # parameter passing: a parameter the callee never modifies and that receives a plain variable of the caller is
            # replaced by that variable (the code then reads as before the helper was extracted); otherwise a renamed local
            assigned = set()
            for cb in cd["blocks"]:
                for s_ in cb["stmts"]:
                    for n in _walk_all(s_):
                        tgt = None
                        if n["k"] == "asg":
                            tgt = n["l"]
                        elif n["k"] == "un" and (n["op"] in ("&",) or "++" in n["op"] or "--" in n["op"]):
                            tgt = n["e"]
                        while tgt is not None and tgt["k"] == "cast":
                            tgt = tgt["e"]
                        if tgt is not None and tgt["k"] == "ref":
                            assigned.add(tgt["name"])
            pre = []
            direct = {}
            addr_of = {}
            const_of = {}
            for p_, a in zip(cd.get("params", []), call["args"]):
                av = a
                while av is not None and av["k"] == "cast" and av.get("ck") in ("NoOp", "LValueToRValue", "BitCast"):
                    av = av["e"]
                if av is not None and av["k"] == "ref" and av.get("decl") in ("local", "param") and p_["name"] not in assigned and not av.get("x"):
                    direct[p_["name"]] = (av["name"], av.get("decl"))
                    continue
                # a field of a caller variable (`shm->platform_key`) handed to a parameter the callee never reassigns, when the callee
                # stores into no field of that name: the parameter is that field expression
                if av is not None and av["k"] == "member" and p_["name"] not in assigned and not av.get("x"):
                    root_ = av
                    chain_ok = True
                    fields_ = set()
                    while root_ is not None and root_["k"] in ("member", "cast"):
                        if root_["k"] == "member":
                            fields_.add(root_["field"])
                            root_ = root_["base"]
                        else:
                            root_ = root_["e"]
                    if root_ is not None and root_["k"] == "ref" and root_.get("decl") in ("local", "param") and not any(m_.get("x") for m_ in _walk_all(av)):
                        stored = set()
                        for cb in cd["blocks"]:
                            for s_ in cb["stmts"]:
                                for n in _walk_all(s_):
                                    if n["k"] == "asg":
                                        t_ = n["l"]
                                        while t_ is not None and t_["k"] == "cast":
                                            t_ = t_["e"]
                                        if t_ is not None and t_["k"] == "member":
                                            stored.add(t_["field"])
                                    if n["k"] == "call" and n.get("callee") not in (None,) and n["callee"] in unit.functions:
                                        stored.add("*")          # a nested helper might store: stay conservative
                        if not (fields_ & stored) and "*" not in stored:
                            const_of[p_["name"]] = av
                            continue
                # a compile-time constant handed to a parameter the callee never reassigns: the parameter is that constant
                if a is not None and cv(a) is not None and p_["name"] not in assigned and not a.get("x"):
                    const_of[p_["name"]] = a
                    continue
                # `&var` handed to an out-parameter the callee never reassigns: `*param` is `var` itself
                if av is not None and av["k"] == "un" and av["op"] == "&" and p_["name"] not in assigned and not av.get("x"):
                    tv = av["e"]
                    while tv is not None and tv["k"] == "cast":
                        tv = tv["e"]
                    if tv is not None and tv["k"] == "ref" and tv.get("decl") in ("local", "param"):
                        addr_of[p_["name"]] = tv
                        continue
                    # `&obj->field`: `*param` is that field
                    rt_ = tv
                    while rt_ is not None and rt_["k"] in ("member", "cast"):
                        rt_ = rt_["base"] if rt_["k"] == "member" else rt_["e"]
                    if tv is not None and tv["k"] == "member" and rt_ is not None and rt_["k"] == "ref" and rt_.get("decl") in ("local", "param") \
                            and not any(m_.get("x") for m_ in _walk_all(tv)):
                        addr_of[p_["name"]] = tv
                        continue
                pre.append({"k": "asg", "op": "=", "loc": loc, "t": p_["t"], "inl": 1,
                            "l": {"k": "ref", "decl": "local", "name": p_["name"] + suffix, "t": p_["t"], "loc": loc}, "r": a})
            if direct:
                for cb in cd["blocks"]:
                    for s_ in cb["stmts"]:
                        for n in _walk_all(s_):
                            if n["k"] == "ref" and not n.get("_caller") and n.get("decl") == "param" and n["name"] in direct:
                                n["name"], n["decl"] = direct[n["name"]]
                                n["_caller"] = 1
                names -= set(direct)
            if const_of:
                import copy as _cp
                for cb in cd["blocks"]:
                    for s_ in cb["stmts"]:
                        for n in _walk_all(s_):
                            if n["k"] == "ref" and not n.get("_caller") and n.get("decl") == "param" and n["name"] in const_of:
                                src = _cp.deepcopy(const_of[n["name"]])
                                for m_ in _walk_all(src):
                                    m_["_caller"] = 1
                                keep_x = n.get("x")
                                n.clear()
                                n.update(src)
                                if keep_x:
                                    n["x"] = 1
                names -= set(const_of)
            if addr_of:
                def deref_subst(e):
                    if isinstance(e, dict):
                        for kk, v in list(e.items()):
                            if isinstance(v, dict):
                                if v.get("k") == "un" and v.get("op") == "*":
                                    inner = v["e"]
                                    while inner is not None and inner["k"] == "cast":
                                        inner = inner["e"]
                                    if inner is not None and inner["k"] == "ref" and not inner.get("_caller") and inner.get("decl") == "param" and inner["name"] in addr_of:
                                        import copy as _cp2
                                        r2 = _cp2.deepcopy(addr_of[inner["name"]])
                                        for m_ in _walk_all(r2):
                                            m_["_caller"] = 1
                                        r2["_caller"] = 1
                                        r2["loc"] = v.get("loc", r2.get("loc"))
                                        if v.get("x"):
                                            r2["x"] = 1
                                        e[kk] = r2
                                        continue
                                deref_subst(v)
                            elif isinstance(v, list):
                                for it in v:
                                    deref_subst(it)
                    elif isinstance(e, list):
                        for it in e:
                            deref_subst(it)
                for cb in cd["blocks"]:
                    deref_subst({"s": cb["stmts"]})
                    # remaining bare uses of the parameter are the address itself
                    for s_ in cb["stmts"]:
                        for n in _walk_all(s_):
                            if n["k"] == "ref" and not n.get("_caller") and n.get("decl") == "param" and n["name"] in addr_of:
                                import copy as _cp3
                                tv = _cp3.deepcopy(addr_of[n["name"]])
                                for m_ in _walk_all(tv):
                                    m_["_caller"] = 1
                                tv["_caller"] = 1
                                n.clear()
                                n.update({"k": "un", "op": "&", "e": tv, "loc": tv.get("loc"), "t": tv.get("t", 0), "_caller": 1})
                names -= set(addr_of)
            b["stmts"] = b["stmts"][:i] + pre
            b["succs"] = [{"to": idmap[cd["entry"]], "on": ""}]
            b.pop("term", None)
            for cb in cd["blocks"]:
                cb["id"] = idmap[cb["id"]]
                cb["succs"] = [s_ for s_ in cb["succs"] if s_["to"] in idmap and not s_.get("unreachable")]
                for s_ in cb["succs"]:
                    s_["to"] = idmap[s_["to"]]
                new_stmts = []
                for s_ in cb["stmts"]:
                    if unify is not None:
                        for n in _walk_all(s_):
                            if n["k"] == "ref" and n.get("decl") == "local" and n["name"] == unify:
                                n["name"] = tmp
                                n["unified"] = 1
                            elif n["k"] == "decl" and n["name"] == unify:
                                n["name"] = tmp
                    _rename_tree(s_, suffix, names - ({unify} if unify else set()))
                    if s_["k"] == "ret":
                        if unify is not None:
                            continue
                        if s_.get("e") is not None:
                            new_stmts.append({"k": "asg", "op": "=", "loc": s_.get("loc", loc), "t": cd.get("ret", 0), "inl": 1,
                                              "l": {"k": "ref", "decl": "local", "name": tmp, "t": cd.get("ret", 0), "loc": s_.get("loc", loc)}, "r": s_["e"]})
                        continue
                    new_stmts.append(s_)
                # a terminator index may shift when a return statement is dropped (returns are last in their block: no shift)
                cb["stmts"] = new_stmts
                if cb["id"] == idmap[cd["exit"]]:
                    cb["succs"] = [{"to": cont_id, "on": ""}]
                blocks[cb["id"]] = cb
                d["blocks"].append(cb)
            blocks[cont_id] = cont
            d["blocks"].append(cont)
            # the call's value: every occurrence of this call expression (also the copies the CFG placed in later blocks)
            repl = {"k": "ref", "decl": "local", "name": tmp, "t": call.get("t", 0), "loc": loc, "inl": 1}
            ckey = (tuple(loc[:2]), call.get("callee"))

            def subst(e):
                if isinstance(e, dict):
                    for kk, v in list(e.items()):
                        if isinstance(v, dict):
                            if v.get("k") == "call" and (tuple((v.get("loc") or [0, 0])[:2]), v.get("callee")) == ckey:
                                r2 = dict(repl)
                                if v.get("x"):
                                    r2["x"] = 1
                                e[kk] = r2
                            else:
                                subst(v)
                        elif isinstance(v, list):
                            for idx, it in enumerate(v):
                                if isinstance(it, dict) and it.get("k") == "call" and (tuple((it.get("loc") or [0, 0])[:2]), it.get("callee")) == ckey:
                                    r2 = dict(repl)
                                    if it.get("x"):
                                        r2["x"] = 1
                                    v[idx] = r2
                                else:
                                    subst(it)
                elif isinstance(e, list):
                    for it in e:
                        subst(it)
            for ob in d["blocks"]:
                if idmap and ob["id"] in idmap.values():
                    continue
                holder = {"s": ob["stmts"]}
                subst(holder)
            did = True
            # continue scanning in the continuation block (its first statement held the call)
            b = cont
            bid = cont_id
            i = 0
    return did


class Record:
    def __init__(self, d):
        self.d = d
        self.name = d["name"]
        self.size = d.get("size")
        self.fields = d.get("fields", [])
        self.main = d.get("main", False)
        self.file = d.get("file")

    def field(self, name):
        for f in self.fields:
            if f["name"] == name:
                return f
        return None


class Unit:
    def __init__(self, name, facts, path):
        self.name = name
        self.path = path
        self.relpath = "src/" + name
        self.facts = facts
        self.types = facts["types"]
        self.records = {}
        for r in facts["records"]:
            self.records.setdefault(r["name"], Record(r))
        self.enums = {e["name"]: e["items"] for e in facts["enums"]}
        self.globals = {g["name"]: g for g in facts["globals"]}
        self.functions = {}
        for f in facts["functions"]:
            self.functions[f["name"]] = Function(f, self)

    def type_of(self, e):
        t = e.get("t") if e else None
        return self.types[t] if t is not None else None

    def fn(self, name, raw=False):
        f = self.functions.get(name)
        if f is None:
            raise AnalysisBroken("anchor function %s not found in %s" % (name, self.relpath))
        if not raw and not os.environ.get("PLINT_NO_INLINE"):
            return f.inlined()
        return f

    def roots(self, **kw):
        """Inlined views of the functions that are entered from outside the unit or through a pointer: everything that is not
        a static function only ever called directly by other functions of the unit."""
        called, taken = set(), set()
        for f in self.functions.values():
            for b, i, s_ in f.stmts():
                for n in walk(s_, elsewhere=True):
                    if n["k"] == "call" and n.get("callee") in self.functions:
                        called.add(n["callee"])
                        for a in n["args"]:
                            for m in walk(a, elsewhere=True):
                                if m["k"] == "ref" and m.get("decl") == "func" and m["name"] in self.functions:
                                    taken.add(m["name"])
                    elif n["k"] == "ref" and n.get("decl") == "func" and n["name"] in self.functions:
                        taken.add(n["name"])
        # a callee reference inside a call node is emitted as the call's `callee`, not as a ref: `taken` holds real address uses
        out = []
        for f in self.functions.values():
            if f.static and f.name in called and f.name not in taken:
                continue
            out.append(f.inlined(**kw))
        return out

    def enum_value(self, const):
        for items in self.enums.values():
            for (n, v) in items:
                if n == const:
                    return v
        return None


class Program:
    def __init__(self, unit_facts, unit_paths):
        self.units = {n: Unit(n, f, unit_paths[n][0]) for n, f in unit_facts.items()}
        for n, u in self.units.items():
            u.flags = list(unit_paths[n][1]) if len(unit_paths[n]) > 1 else []     # the build's compile flags (-D...) of this unit

    def unit(self, name):
        u = self.units.get(name)
        if u is None:
            raise AnalysisBroken("unit %s was not analysed" % name)
        return u

    def find_function(self, name, units=None):
        """All definitions of `name` (several build models may define it)."""
        out = []
        for n, u in sorted(self.units.items()):
            if units is not None and n not in units:
                continue
            if name in u.functions:
                out.append(u.functions[name])
        return out
