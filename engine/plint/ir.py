"""In-memory program representation built from pfx facts, expression helpers
and the CFG analyses (dominators, post-dominators, loops, reachability)."""
import os

from .units import AnalysisBroken

# ---------------------------------------------------------------------------
# expressions (plain dicts from pfx); helpers
# ---------------------------------------------------------------------------

VALUE_PRESERVING_CASTS = ("NoOp", "LValueToRValue", "BitCast", "NullToPointer",
                          "IntegralToPointer", "PointerToIntegral", "ToVoid",
                          "IntegralToBoolean", "PointerToBoolean")


def strip_expect(e):
    """Remove parentheses-level noise: __builtin_expect(!!(x), n) -> x,
    casts to long of booleans, double negation."""
    while True:
        if e is None:
            return e
        k = e["k"]
        if k == "call" and e.get("callee") == "__builtin_expect" and e["args"]:
            e = e["args"][0]
            continue
        if k == "cast" and not e["explicit"] and e["ck"] in ("IntegralCast", "NoOp", "LValueToRValue", "IntegralToBoolean", "BooleanToSignedIntegral"):
            inner = e["e"]
            # implicit widening of a boolean/logical result carries no information
            ik = inner["k"]
            if (ik == "un" and inner["op"] == "!") or (ik == "bin" and inner["op"] in ("==", "!=", "<", ">", "<=", ">=", "&&", "||")) \
                    or (ik == "call" and inner.get("callee") == "__builtin_expect"):
                e = inner
                continue
            return e
        if k == "un" and e["op"] == "!" and e["e"]["k"] == "un" and e["e"]["op"] == "!":
            e = e["e"]["e"]
            continue
        return e


def strip_casts(e, explicit=True):
    """Strip casts (implicit always; explicit when asked) and expect-noise."""
    while e is not None:
        e = strip_expect(e)
        if e["k"] == "cast" and (explicit or not e["explicit"]):
            e = e["e"]
            continue
        return e
    return e


def walk(e, elsewhere=False):
    """Pre-order walk over an expression tree. Sub-expressions that the CFG
    evaluates in another block (flag x) are skipped unless elsewhere=True."""
    if e is None:
        return
    stack = [e]
    while stack:
        n = stack.pop()
        if n is None:
            continue
        if n.get("x") and not elsewhere and n is not e:
            continue
        yield n
        k = n["k"]
        if k in ("bin", "asg"):
            stack.append(n["r"])
            stack.append(n["l"])
        elif k in ("un", "cast", "ret", "complit", "vaarg"):
            if n.get("e") is not None:
                stack.append(n["e"])
        elif k == "member":
            stack.append(n["base"])
        elif k == "call":
            for a in reversed(n["args"]):
                stack.append(a)
            if n.get("fnptr") is not None:
                stack.append(n["fnptr"])
        elif k == "cond":
            stack.append(n["b"])
            stack.append(n["a"])
            stack.append(n["c"])
        elif k == "idx":
            stack.append(n["i"])
            stack.append(n["base"])
        elif k == "decl":
            if n.get("init") is not None:
                stack.append(n["init"])
        elif k in ("seq", "init"):
            for a in reversed(n.get("items", [])):
                stack.append(a)
        elif k == "other":
            for a in reversed(n.get("ch", [])):
                stack.append(a)
        # sizeof operands are unevaluated: not walked


def calls(e, name=None, elsewhere=False):
    for n in walk(e, elsewhere):
        if n["k"] == "call" and (name is None or n.get("callee") == name or
                                 (isinstance(name, (set, frozenset, tuple, list)) and n.get("callee") in name)):
            yield n


def cv(e):
    """Constant value of an expression (as folded by clang), or None."""
    if e is None:
        return None
    if "cv" in e:
        return e["cv"]
    if e["k"] == "int" and "v" in e:
        return e["v"]
    s = strip_casts(e)
    if s is not e and s is not None:
        if "cv" in s:
            return s["cv"]
        if s["k"] == "int" and "v" in s:
            return s["v"]
    return None


def ap(e):
    """Access path of an lvalue-like expression as a string, or None."""
    e = strip_casts(e)
    if e is None:
        return None
    k = e["k"]
    if k == "ref":
        return e["name"]
    if k == "member":
        b = ap(e["base"])
        if b is None:
            return None
        return b + ("->" if e["arrow"] else ".") + e["field"]
    if k == "un" and e["op"] == "*":
        b = ap(e["e"])
        return None if b is None else "*" + b
    if k == "un" and e["op"] == "&":
        b = ap(e["e"])
        return None if b is None else "&" + b
    if k == "idx":
        b = ap(e["base"])
        i = e["i"]
        iv = cv(i)
        ia = ap(i) if iv is None else str(iv)
        if b is None or ia is None:
            return None
        return "%s[%s]" % (b, ia)
    return None


def root_var(e):
    """Name of the variable at the root of an access path expression."""
    e = strip_casts(e)
    while e is not None:
        k = e["k"]
        if k == "ref":
            return e["name"]
        if k == "member":
            e = strip_casts(e["base"])
        elif k == "un" and e["op"] in ("*", "&"):
            e = strip_casts(e["e"])
        elif k == "idx":
            e = strip_casts(e["base"])
        elif k == "bin" and e["op"] in ("+", "-"):
            e = strip_casts(e["l"])
        elif k == "complit":
            # transparent-union argument (glibc __SOCKADDR_ARG): (union){ ptr }
            e = strip_casts(e["e"])
        elif k == "init" and len(e.get("items", [])) == 1:
            e = strip_casts(e["items"][0])
        else:
            return None
    return None


def show(e):
    if e is None:
        return "<none>"
    k = e["k"]
    if k == "ref":
        return e["name"]
    if k == "int":
        return str(e.get("v", e.get("vs")))
    if k == "member":
        return show(e["base"]) + ("->" if e["arrow"] else ".") + e["field"]
    if k == "un":
        op = e["op"]
        if op.startswith("post"):
            return show(e["e"]) + op[4:]
        if op.startswith("pre"):
            return op[3:] + show(e["e"])
        return op + show(e["e"])
    if k in ("bin", "asg"):
        return "(%s %s %s)" % (show(e["l"]), e["op"], show(e["r"]))
    if k == "call":
        c = e.get("callee") or "(*%s)" % show(e.get("fnptr"))
        return "%s (%s)" % (c, ", ".join(show(a) for a in e["args"]))
    if k == "cast":
        return ("(%s) %s" % (e["ts"], show(e["e"]))) if e["explicit"] else show(e["e"])
    if k == "decl":
        return "%s %s%s" % (e.get("ts", "?"), e["name"], (" = " + show(e["init"])) if e.get("init") is not None else "")
    if k == "ret":
        return "return " + (show(e["e"]) if e.get("e") is not None else "")
    if k == "cond":
        return "(%s ? %s : %s)" % (show(e["c"]), show(e["a"]), show(e["b"]))
    if k == "idx":
        return "%s[%s]" % (show(e["base"]), show(e["i"]))
    if k == "sizeof":
        return "sizeof (%s)" % e.get("ofs", e.get("of", "?"))
    if k == "str":
        return '"%s"' % (e.get("v", "") or "").replace("\n", "\\n")
    return "<%s>" % k


def line(e):
    loc = e.get("loc") if e else None
    return loc[0] if loc else 0


def is_call(e, name=None):
    e = strip_casts(e)
    if e is None or e["k"] != "call":
        return False
    if name is None:
        return True
    if isinstance(name, str):
        return e.get("callee") == name
    return e.get("callee") in name


def assigned_call(stmt):
    """For `v = f(...)`, `T v = f(...)`, returns (target expr-or-name, call)."""
    s = strip_casts(stmt)
    if s is None:
        return None
    if s["k"] == "asg" and s["op"] == "=":
        r = strip_casts(s["r"])
        if r is not None and r["k"] == "call":
            return (s["l"], r)
    if s["k"] == "decl" and s.get("init") is not None:
        r = strip_casts(s["init"])
        if r is not None and r["k"] == "call":
            return ({"k": "ref", "name": s["name"], "decl": "local"}, r)
    return None


NEG = {"==": "!=", "!=": "==", "<": ">=", ">=": "<", ">": "<=", "<=": ">"}
SWAP = {"==": "==", "!=": "!=", "<": ">", ">": "<", "<=": ">=", ">=": "<="}


def atoms(cond, truth=True):
    """Atomic facts (lhs_expr, op, rhs_expr) that hold when `cond` evaluates
    to `truth`.  Handles !, ==/!= against constants, embedded assignments,
    && under true and || under false. lhs of an embedded assignment yields
    facts for both the assigned variable and the assigned value."""
    out = []
    c = strip_expect(cond)
    if c is None:
        return out
    k = c["k"]
    if k == "cast" and c["ck"] in ("IntegralCast", "IntegralToBoolean", "PointerToBoolean", "NoOp", "BooleanToSignedIntegral"):
        return atoms(c["e"], truth)
    if k == "un" and c["op"] == "!":
        return atoms(c["e"], not truth)
    if k == "bin" and c["op"] == "&&":
        if truth:
            return atoms(c["l"], True) + atoms(c["r"], True)
        return out
    if k == "bin" and c["op"] == "||":
        if not truth:
            return atoms(c["l"], False) + atoms(c["r"], False)
        return out
    if k == "bin" and c["op"] in NEG:
        op = c["op"] if truth else NEG[c["op"]]
        l, r = c["l"], c["r"]
        # boolean comparison against constant: (x == FALSE) etc.
        rv = cv(r)
        ls = strip_expect(l)
        if rv is not None and op in ("==", "!=") and ls is not None:
            lk = strip_casts(ls, explicit=False)
            if lk is not None and (lk["k"] == "un" and lk["op"] == "!" or (lk["k"] == "bin" and lk["op"] in NEG) or (lk["k"] == "bin" and lk["op"] in ("&&", "||"))):
                # (boolexpr) == 0  -> boolexpr false ; != 0 -> true ; == 1 -> true
                if rv == 0:
                    return atoms(lk, op == "!=")
                if rv == 1:
                    return atoms(lk, op == "==")
        out.append((l, op, r))
        # embedded assignment: ((v = f()) == C)
        la = strip_casts(l)
        if la is not None and la["k"] == "asg" and la["op"] == "=":
            out.append((la["l"], op, r))
            out.append((la["r"], op, r))
        return out
    if k == "asg" and c["op"] == "=":
        zero = {"k": "int", "v": 0}
        op = "!=" if truth else "=="
        return [(c["l"], op, zero), (c["r"], op, zero)]
    # plain truthiness
    zero = {"k": "int", "v": 0}
    out.append((c, "!=" if truth else "==", zero))
    return out


# ---------------------------------------------------------------------------
# program objects
# ---------------------------------------------------------------------------

class Block:
    __slots__ = ("id", "stmts", "term", "succs", "label", "preds", "func")

    def __init__(self, d, func):
        self.id = d["id"]
        self.stmts = d["stmts"]
        self.term = d.get("term")
        self.label = d.get("label")
        self.succs = [(s["to"], s.get("on", "")) for s in d["succs"] if not s.get("unreachable")]
        self.preds = []
        self.func = func

    @property
    def cond(self):
        """Terminator condition expression or None."""
        t = self.term
        if not t:
            return None
        ci = t.get("ci", -1)
        if ci is not None and ci >= 0 and ci < len(self.stmts):
            return self.stmts[ci]
        return t.get("cond")

    def line(self):
        for s in self.stmts:
            l = line(s)
            if l:
                return l
        if self.term and self.term.get("loc"):
            return self.term["loc"][0]
        return 0


class Function:
    def __init__(self, d, unit):
        self.d = d
        self.unit = unit
        self.name = d["name"]
        self.static = d.get("static", False)
        self.api = d.get("api", False)
        self.params = d.get("params", [])
        self.loc = d.get("loc", [0, 0])
        if d.get("cfg_error") or "blocks" not in d:
            raise AnalysisBroken("no CFG for %s in %s" % (self.name, unit.name))
        self.blocks = {b["id"]: Block(b, self) for b in d["blocks"]}
        self.entry = d["entry"]
        self.exit = d["exit"]
        for b in self.blocks.values():
            for (to, on) in b.succs:
                if to in self.blocks:
                    self.blocks[to].preds.append(b.id)
        self._dom = None
        self._pdom = None
        self._reach = None

    def __repr__(self):
        return "<fn %s:%s>" % (self.unit.name, self.name)

    # -- iteration -------------------------------------------------------
    def reachable_blocks(self):
        if self._reach is None:
            seen = set()
            st = [self.entry]
            while st:
                b = st.pop()
                if b in seen:
                    continue
                seen.add(b)
                for (to, _) in self.blocks[b].succs:
                    st.append(to)
            self._reach = seen
        return self._reach

    def stmts(self):
        """Yield (block, index, stmt) for all reachable top-level statements."""
        for bid in sorted(self.reachable_blocks(), reverse=True):
            b = self.blocks[bid]
            for i, s in enumerate(b.stmts):
                yield b, i, s

    def nodes(self, elsewhere=False):
        """Yield (block, index, node) for every expression node."""
        for b, i, s in self.stmts():
            for n in walk(s, elsewhere):
                yield b, i, n

    def calls(self, name=None):
        for b, i, s in self.stmts():
            for c in calls(s, name):
                yield b, i, c

    def param_names(self):
        return [p["name"] for p in self.params]

    # -- dominators ------------------------------------------------------
    def _compute_dom(self, entry, succs_of, preds_of, nodes):
        # iterative set-based dominators (functions are small)
        dom = {n: set(nodes) for n in nodes}
        dom[entry] = {entry}
        changed = True
        order = list(nodes)
        while changed:
            changed = False
            for n in order:
                if n == entry:
                    continue
                ps = [p for p in preds_of(n) if p in dom]
                if ps:
                    new = set.intersection(*[dom[p] for p in ps]) | {n}
                else:
                    new = {n}
                if new != dom[n]:
                    dom[n] = new
                    changed = True
        return dom

    def dom(self):
        if self._dom is None:
            nodes = sorted(self.reachable_blocks(), reverse=True)
            self._dom = self._compute_dom(
                self.entry,
                lambda n: [t for (t, _) in self.blocks[n].succs],
                lambda n: [p for p in self.blocks[n].preds if p in self.reachable_blocks()],
                nodes)
        return self._dom

    def pdom(self):
        if self._pdom is None:
            reach = self.reachable_blocks()
            # nodes that can reach exit
            nodes = set()
            st = [self.exit]
            while st:
                b = st.pop()
                if b in nodes or b not in reach:
                    continue
                nodes.add(b)
                for p in self.blocks[b].preds:
                    st.append(p)
            nodes = sorted(nodes)
            self._pdom = self._compute_dom(
                self.exit,
                lambda n: [p for p in self.blocks[n].preds],
                lambda n: [t for (t, _) in self.blocks[n].succs if t in nodes],
                nodes)
        return self._pdom

    def dominates(self, a, b):
        """block a dominates block b"""
        return a in self.dom().get(b, ())

    def postdominates(self, a, b):
        return a in self.pdom().get(b, ())

    def pos_dominates(self, pa, pb):
        """(block, idx) position pa dominates position pb."""
        (ba, ia), (bb, ib) = pa, pb
        if ba == bb:
            return ia <= ib
        return self.dominates(ba, bb)

    def back_edges(self):
        out = []
        for b in self.reachable_blocks():
            for (to, on) in self.blocks[b].succs:
                if self.dominates(to, b):
                    out.append((b, to))
        return out

    def loops(self):
        """Natural loops: list of (header, set_of_blocks)."""
        res = {}
        for (src, hdr) in self.back_edges():
            body = {hdr}
            st = [src]
            while st:
                n = st.pop()
                if n in body:
                    continue
                body.add(n)
                for p in self.blocks[n].preds:
                    if p in self.reachable_blocks():
                        st.append(p)
            res.setdefault(hdr, set()).update(body)
        return list(res.items())

    def in_loop(self, bid):
        return any(bid in body for (_, body) in self.loops())

    def reach_from(self, start_blocks, avoid=()):
        """Blocks reachable from the successors of nothing: from start_blocks
        themselves (inclusive), not passing through `avoid` blocks."""
        seen = set()
        st = list(start_blocks)
        avoid = set(avoid)
        while st:
            b = st.pop()
            if b in seen or b in avoid:
                continue
            seen.add(b)
            for (to, _) in self.blocks[b].succs:
                st.append(to)
        return seen

    def exit_preds(self):
        return [p for p in self.blocks[self.exit].preds if p in self.reachable_blocks()]

    def returns(self):
        """Yield (block, idx, ret_stmt) for every reachable return."""
        for b, i, s in self.stmts():
            if s["k"] == "ret":
                yield b, i, s

    def where(self, e_or_line):
        l = e_or_line if isinstance(e_or_line, int) else line(e_or_line)
        return "%s:%d" % (self.unit.relpath, l)


class Record:
    def __init__(self, d):
        self.d = d
        self.name = d["name"]
        self.size = d.get("size")
        self.fields = d.get("fields", [])
        self.main = d.get("main", False)
        self.file = d.get("file")

    def field(self, name):
        for f in self.fields:
            if f["name"] == name:
                return f
        return None


class Unit:
    def __init__(self, name, facts, path):
        self.name = name
        self.path = path
        self.relpath = "src/" + name
        self.facts = facts
        self.types = facts["types"]
        self.records = {}
        for r in facts["records"]:
            self.records.setdefault(r["name"], Record(r))
        self.enums = {e["name"]: e["items"] for e in facts["enums"]}
        self.globals = {g["name"]: g for g in facts["globals"]}
        self.functions = {}
        for f in facts["functions"]:
            self.functions[f["name"]] = Function(f, self)

    def type_of(self, e):
        t = e.get("t") if e else None
        return self.types[t] if t is not None else None

    def fn(self, name):
        f = self.functions.get(name)
        if f is None:
            raise AnalysisBroken("anchor function %s not found in %s" % (name, self.relpath))
        return f

    def enum_value(self, const):
        for items in self.enums.values():
            for (n, v) in items:
                if n == const:
                    return v
        return None


class Program:
    def __init__(self, unit_facts, unit_paths):
        self.units = {n: Unit(n, f, unit_paths[n][0]) for n, f in unit_facts.items()}

    def unit(self, name):
        u = self.units.get(name)
        if u is None:
            raise AnalysisBroken("unit %s was not analysed" % name)
        return u

    def find_function(self, name, units=None):
        """All definitions of `name` (several build models may define it)."""
        out = []
        for n, u in sorted(self.units.items()):
            if units is not None and n not in units:
                continue
            if name in u.functions:
                out.append(u.functions[name])
        return out
