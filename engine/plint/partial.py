"""A-PARTIAL: destructors run on partially constructed objects.

A constructor that unwinds a failed step by handing its half-built object to the type's destructor relies on the
destructor tolerating every member that is still NULL.  Two halves:

  needs(prog)    per function, the parameter members it dereferences (arrow, *, [], or hands to a function / libc
                 routine that does) on some path on which no NULL test of that member holds.  A dereference that is
                 reached only under `x < p->count` is recorded as conditional on that count member being non-zero.
                 Summaries are propagated through direct calls to a fixpoint.
  sites(fn, N)   calls in fn whose argument is a local object allocated in fn, with the members known NULL at the call
                 (a failed-allocation branch fact, or a member never stored since a zero-filling allocation) checked
                 against the callee's needs.

Both halves use A-GUARD facts on every path (trace partitioning), so a report is a definite NULL dereference on a named
path, never a "may".
"""
import re
from . import guards
from .flow import Flow
from .ir import strip_casts, walk

ZERO_ALLOC = ("p_malloc0", "calloc")
RAW_ALLOC = ("p_malloc", "malloc")
# libc routines that dereference a pointer argument unconditionally: name -> argument indexes
LIBC_DEREF = {"closedir": (0,), "fclose": (0,), "strlen": (0,), "strcpy": (0, 1), "strcmp": (0, 1), "memcpy": (0, 1), "readdir": (0,),
              "rewinddir": (0,), "freeaddrinfo": (0,), "pthread_mutex_destroy": (0,), "pthread_cond_destroy": (0,), "pthread_rwlock_destroy": (0,)}

_LT = re.compile(r"^\((.+)<([A-Za-z_][A-Za-z_0-9]*)->([A-Za-z_][A-Za-z_0-9]*)\)$")


def _param_path(fn, e):
    """(param index, field tuple) of `p` or `p->f` for a parameter p, else None"""
    e = strip_casts(e)
    if e is None:
        return None
    ps = fn.param_names()
    if e["k"] == "ref" and e.get("decl") == "param" and e["name"] in ps:
        return (ps.index(e["name"]), ())
    if e["k"] == "member" and e.get("arrow"):
        b = strip_casts(e["base"])
        if b is not None and b["k"] == "ref" and b.get("decl") == "param" and b["name"] in ps:
            return (ps.index(b["name"]), (e["field"],))
    return None


def _count_guard(facts, pname):
    """field g such that `x < p->g` holds on this path (the access happens only for a non-zero count)"""
    for (fk, fop, fv) in facts:
        m = _LT.match(fk)
        if m and m.group(2) == pname and ((fop == "==" and fv == 1) or (fop == "!=" and fv == 0)):
            return m.group(3)
    return None


def _is_array(unit, e):
    e = strip_casts(e)
    if e is not None and e["k"] == "member":
        rec = unit.records.get(e.get("rec"))
        f = rec.field(e["field"]) if rec else None
        return f is not None and "[" in (f.get("ts") or "")
    return False


def _derefs(stmt, unit):
    """expressions whose pointer value is dereferenced by this statement: [(expr, how, node)]"""
    out = []
    for n in walk(stmt):
        k = n["k"]
        if k == "member" and n.get("arrow"):
            out.append((n["base"], "->" + n["field"], n))
        elif k == "un" and n.get("op") == "*" and not _is_array(unit, n["e"]):
            out.append((n["e"], "*", n))
        elif k == "idx" and not _is_array(unit, n["base"]):
            out.append((n["base"], "[]", n))
    return out


def needs(prog, units=None):
    """{function name: {(param idx, fields, count field or None): (line, how)}}"""
    fns = {}
    for un, u in prog.units.items():
        if units is not None and un not in units:
            continue
        for f in u.functions.values():
            fns.setdefault(f.name, f)
    summ = dict((n, {}) for n in fns)
    for _round in range(6):
        changed = False
        for name, fn in fns.items():
            got = {}
            ps = fn.param_names()
            if not ps:
                continue

            def need(e, facts, how, ln, cond_from=None):
                pp = _param_path(fn, e)
                if pp is None:
                    return
                if guards.known_nonzero(e, facts):
                    return
                cnt = _count_guard(facts, ps[pp[0]])
                if cnt is not None and pp[1] and cnt == pp[1][0]:
                    cnt = None
                got.setdefault((pp[0], pp[1], cnt if cond_from is None else cond_from), (ln, how))

            def on_stmt(st, b, i, stmt):
                for (e, how, n) in _derefs(stmt, fn.unit):
                    need(e, st, how, (n.get("loc") or [0])[0])
                for n in walk(stmt):
                    if n["k"] != "call" or not n.get("callee"):
                        continue
                    cal = n["callee"]
                    ln = (n.get("loc") or [0])[0]
                    for k in LIBC_DEREF.get(cal, ()):
                        if k < len(n["args"]):
                            need(n["args"][k], st, "passed to %s" % cal, ln)
                    for (k, path, cnt), (l2, h2) in summ.get(cal, {}).items() if cal != name else ():
                        if k >= len(n["args"]):
                            continue
                        a = strip_casts(n["args"][k])
                        if path == ():
                            need(a, st, "passed to %s, which dereferences it" % cal, ln)
                        elif a is not None and a["k"] == "ref" and a.get("decl") == "param" and a["name"] in ps:
                            kk = "%s->%s" % (a["name"], path[0])
                            nz = any(fk == kk and ((fop == "!=" and fv == 0) or (fop == "==" and fv != 0)) for (fk, fop, fv) in st)
                            if not nz:
                                got.setdefault((ps.index(a["name"]), path, cnt), (ln, "%s (in %s)" % (h2, cal)))
                return [guards.transfer(st, stmt)]
            try:
                Flow(fn, [guards.EMPTY], on_stmt, lambda st, b, to, on: guards.edge_assume(st, b, on), max_states=4000).run()
            except Exception:
                continue        # too many paths: no summary (call sites of this function are then not judged)
            if got != summ[name]:
                summ[name] = got
                changed = True
        if not changed:
            break
    return summ


def destructors(prog):
    """{function name: parameter index} for program functions that hand a parameter itself to p_free (role, not name)"""
    out = {}
    for u in prog.units.values():
        for f in u.functions.values():
            ps = f.param_names()
            for (b, i, c) in f.calls():
                if c.get("callee") in ("p_free", "free") and c.get("args"):
                    a = strip_casts(c["args"][0])
                    if a is not None and a["k"] == "ref" and a.get("decl") == "param" and a["name"] in ps:
                        out.setdefault(f.name, ps.index(a["name"]))
    return out


def sites(fn, summ, destr=None):
    """Calls handing a local object allocated in fn to a function with needs:
    [(call node, callee, object var, [(field, count field, line in callee, how, why NULL)], witness lines)]"""
    out = []
    seen = set()
    objs = {}
    for (b, i, n) in fn.nodes():
        if n["k"] == "asg" or (n["k"] == "decl" and n.get("init") is not None):
            l = strip_casts(n["l"]) if n["k"] == "asg" else {"k": "ref", "name": n.get("name"), "decl": "local"}
            r = strip_casts(n["r"] if n["k"] == "asg" else n["init"])
            if l is not None and l["k"] == "ref" and l.get("decl") == "local" and r is not None and r["k"] == "call" \
                    and r.get("callee") in ZERO_ALLOC + RAW_ALLOC:
                objs[l["name"]] = r.get("callee") in ZERO_ALLOC
    destr = destr or {}
    if not objs or not any((c.get("callee") in summ and any(pth for (k, pth, cnt) in summ[c["callee"]])) or c.get("callee") in destr for (b, i, c) in fn.calls()):
        return out

    def on_stmt(st, b, i, stmt):
        facts, stored = st
        for n in walk(stmt):
            if n["k"] == "call" and n.get("callee") in destr and destr[n["callee"]] < len(n["args"]) \
                    and not any(pth and k == destr[n["callee"]] for (k, pth, cnt) in summ.get(n["callee"], {})):
                a = strip_casts(n["args"][destr[n["callee"]]])
                if a is not None and a["k"] == "ref" and a["name"] in objs:
                    out.append((n, n["callee"], a["name"], None, None))       # a destructor with no member it needs non-NULL
            if n["k"] == "call" and n.get("callee") in summ and summ[n["callee"]]:
                for (k, path, cnt), (l2, h2) in sorted(summ[n["callee"]].items(), key=lambda kv: str(kv)):
                    if k >= len(n["args"]) or not path:
                        continue
                    a = strip_casts(n["args"][k])
                    if a is None or a["k"] != "ref" or a["name"] not in objs:
                        continue
                    v = a["name"]
                    key_ = (id(n), v, path, cnt)
                    kk = "%s->%s" % (v, path[0])
                    isnull = why = None
                    if guards.lookup(facts, kk) == 0:
                        isnull, why = True, "%s is NULL on this path (its allocation failed)" % kk
                    elif objs[v] and (v, path[0]) not in stored and (v, "*") not in stored and not any(fk == kk for (fk, fop, fv) in facts):
                        isnull, why = True, "%s is still the zero the allocation filled in" % kk
                    if not isnull:
                        out.append((n, n["callee"], v, None, None))
                        continue
                    if cnt is not None:
                        ck = "%s->%s" % (v, cnt)
                        cval = guards.lookup(facts, ck)
                        nonzero = (cval is not None and cval != 0) or any(fk == ck and fop == "!=" and fv == 0 for (fk, fop, fv) in facts)
                        if not nonzero:
                            out.append((n, n["callee"], v, None, None))
                            continue
                        why += " while %s is already %s" % (ck, cval if cval is not None else "non-zero")
                    if key_ not in seen:
                        seen.add(key_)
                        out.append((n, n["callee"], v, (path[0], cnt, l2, h2, why), flow.witness_lines(*flow.cur)))
            if n["k"] == "call":
                # the object or the address of a member handed to a call: the callee may have stored into it
                for a in n.get("args", ()):
                    a = strip_casts(a)
                    if a is not None and a["k"] == "ref" and a["name"] in objs:
                        stored = stored | {(a["name"], "*")}
                    if a is not None and a["k"] == "un" and a.get("op") == "&":
                        m = strip_casts(a["e"])
                        while m is not None and m["k"] in ("member", "idx") and not (m["k"] == "member" and m.get("arrow")):
                            m = strip_casts(m["base"])
                        if m is not None and m["k"] == "member":
                            bb = strip_casts(m["base"])
                            if bb is not None and bb["k"] == "ref" and bb["name"] in objs:
                                stored = stored | {(bb["name"], m["field"])}
            if n["k"] == "asg":
                l = strip_casts(n["l"])
                if l is not None and l["k"] == "member" and l.get("arrow"):
                    bb = strip_casts(l["base"])
                    if bb is not None and bb["k"] == "ref" and bb["name"] in objs:
                        stored = stored | {(bb["name"], l["field"])}
                if l is not None and l["k"] == "ref" and l["name"] in objs:
                    stored = frozenset(x for x in stored if x[0] != l["name"])
        return [(guards.transfer(facts, stmt), stored)]

    def on_edge(st, b, to, on):
        f2 = guards.edge_assume(st[0], b, on)
        return None if f2 is None else (f2, st[1])
    flow = Flow(fn, [(guards.EMPTY, frozenset())], on_stmt, on_edge, max_states=6000)
    flow.run()
    return out


LIBC_NAME_ARGS = {"sem_open": (0,), "sem_unlink": (0,), "shm_open": (0,), "shm_unlink": (0,), "opendir": (0,), "fopen": (0,), "open": (0,), "dlopen": ()}


def unchecked_members(fn, fallible):
    """Members of a local object that were assigned the result of a call that can fail by returning NULL (an allocating library
    function) and reach - in the same function, static helpers inlined - a libc routine that dereferences its argument, on a path
    that never tested them.  -> [(call node, member text, callee, line of the store, witness lines)]"""
    out = []
    seen = set()
    deref = dict(LIBC_DEREF)
    deref.update(LIBC_NAME_ARGS)

    def on_stmt(st, b, i, stmt):
        facts, maybe = st
        for n in walk(stmt):
            if n["k"] == "call" and n.get("callee") in deref:
                for k in deref[n["callee"]]:
                    if k < len(n["args"]):
                        a = strip_casts(n["args"][k])
                        if a is not None and a["k"] == "member":
                            key_ = guards.key(a)
                            src = dict(maybe).get(key_)
                            if src is not None and not guards.known_nonzero(a, facts) and (id(n), key_) not in seen:
                                seen.add((id(n), key_))
                                out.append((n, key_, n["callee"], src, flow.witness_lines(*flow.cur)))
            if n["k"] == "asg" and n.get("op") == "=":
                l = strip_casts(n["l"])
                r = strip_casts(n["r"])
                if l is not None and l["k"] == "member" and l.get("arrow"):
                    key_ = guards.key(l)
                    maybe = frozenset(x for x in maybe if x[0] != key_)
                    if r is not None and r["k"] == "call" and r.get("callee") in fallible:
                        maybe = maybe | {(key_, (n.get("loc") or [0])[0])}
        return [(guards.transfer(facts, stmt), maybe)]

    def on_edge(st, b, to, on):
        f2 = guards.edge_assume(st[0], b, on)
        return None if f2 is None else (f2, st[1])
    flow = Flow(fn, [(guards.EMPTY, frozenset())], on_stmt, on_edge, max_states=20000)
    flow.run()
    return out
