"""Compile database, unit list and fact cache.

Everything here is recomputed from /repo's current working tree on every run;
facts are cached under /verif/.work/facts keyed by the content of the unit, of
every header of the library, of the generated config header and of the flags.
"""
import hashlib
import json
import os
import subprocess
import sys
import tempfile
from concurrent.futures import ThreadPoolExecutor

VERIF = os.path.dirname(os.path.dirname(os.path.dirname(os.path.abspath(__file__))))
REPO = os.environ.get("PLINT_REPO", "/repo")
WORK = os.environ.get("PLINT_WORK", os.path.join(VERIF, ".work"))
PFX = os.path.join(VERIF, "engine", "pfx", "pfx")


class AnalysisBroken(Exception):
    """Raised when the analysis itself cannot be trusted (exit code 2)."""


# alternate build models named by the properties' quantifiers; each is analysed
# with the flags of its default sibling
ALTERNATES = {
    "patomic-sync.c": "patomic-c11.c",
    "patomic-sim.c": "patomic-c11.c",
    "pspinlock-sync.c": "pspinlock-c11.c",
    "pspinlock-sim.c": "pspinlock-c11.c",
    "prwlock-general.c": "prwlock-posix.c",
}
# parsed and reported informationally only (not build-selectable on Linux)
INFORMATIONAL = {
    "psemaphore-sysv.c": "psemaphore-posix.c",
    "pshm-sysv.c": "pshm-posix.c",
}


def _sha(*parts):
    h = hashlib.sha256()
    for p in parts:
        if isinstance(p, str):
            p = p.encode()
        h.update(p)
        h.update(b"\0")
    return h.hexdigest()


def _read(path):
    with open(path, "rb") as f:
        return f.read()


def _cfg_inputs_hash(repo):
    parts = []
    roots = ["CMakeLists.txt", "cmake", "platforms", "src/CMakeLists.txt",
             "src/plibsysconfig.h.in"]
    for r in roots:
        p = os.path.join(repo, r)
        if os.path.isdir(p):
            for dp, dn, fn in sorted(os.walk(p)):
                dn.sort()
                for f in sorted(fn):
                    fp = os.path.join(dp, f)
                    parts.append(fp)
                    parts.append(_read(fp))
        elif os.path.exists(p):
            parts.append(p)
            parts.append(_read(p))
    return _sha(*parts)


def configure(repo=None, work=None):
    """(Re)configure cmake for `repo` into work/cfg when its inputs changed."""
    repo = repo or REPO
    work = work or WORK
    os.makedirs(work, exist_ok=True)
    cfg = os.path.join(work, "cfg")
    stamp = os.path.join(work, "cfg.stamp")
    want = _cfg_inputs_hash(repo) + ":" + repo
    def current():
        if os.path.exists(stamp) and os.path.exists(os.path.join(cfg, "build.ninja")):
            return open(stamp).read().strip()
        return None
    if current() != want:
        # several checks may start side by side (the twenty registered commands, self-test workers): one of them configures,
        # the others wait for it
        import fcntl
        with open(os.path.join(work, "cfg.lock"), "w") as lk:
            fcntl.flock(lk, fcntl.LOCK_EX)
            try:
                if current() != want:
                    if os.path.exists(stamp):
                        os.unlink(stamp)
                    if os.path.exists(cfg):
                        subprocess.run(["rm", "-rf", cfg], check=True)
                    r = subprocess.run(["cmake", "-S", repo, "-B", cfg, "-G", "Ninja",
                                        "-DCMAKE_BUILD_TYPE=Debug"],
                                       stdout=subprocess.PIPE, stderr=subprocess.STDOUT)
                    if r.returncode != 0:
                        raise AnalysisBroken("cmake configure failed:\n" + r.stdout.decode()[-2000:])
                    with open(stamp + ".tmp", "w") as f:
                        f.write(want)
                    os.replace(stamp + ".tmp", stamp)
            finally:
                fcntl.flock(lk, fcntl.LOCK_UN)
    return cfg


_resource_dir = None


def resource_dir():
    global _resource_dir
    if _resource_dir is None:
        _resource_dir = subprocess.run(["clang", "-print-resource-dir"], stdout=subprocess.PIPE,
                                       check=True).stdout.decode().strip()
    return _resource_dir


def compdb(repo=None, work=None):
    """Returns {basename: (path, [flags])} for the units of plibsysstatic."""
    repo = repo or REPO
    cfg = configure(repo, work)
    r = subprocess.run(["ninja", "-C", cfg, "-t", "compdb"], stdout=subprocess.PIPE,
                       stderr=subprocess.PIPE)
    if r.returncode != 0:
        raise AnalysisBroken("ninja -t compdb failed: " + r.stderr.decode())
    db = json.loads(r.stdout.decode())
    units = {}
    for e in db:
        out = e.get("output", "")
        if "plibsysstatic.dir" not in out or not e["file"].endswith(".c"):
            continue
        words = e["command"].split()
        flags = []
        skip = False
        for i, w in enumerate(words[1:]):
            if skip:
                skip = False
                continue
            if w in ("-o", "-MT", "-MF"):
                skip = True
                continue
            if w in ("-c", "-MD") or w == e["file"]:
                continue
            if w.startswith("-D") or w.startswith("-I") or w.startswith("-U") or w.startswith("-std"):
                flags.append(w)
        flags += ["-std=gnu11", "-UNDEBUG", "-w"]
        units[os.path.basename(e["file"])] = (e["file"], flags)
    if len(units) < 30:
        raise AnalysisBroken("compile database lists only %d library units" % len(units))
    return units


def all_units(repo=None, work=None, with_alternates=True, with_informational=True):
    repo = repo or REPO
    if repo != REPO and os.environ.get("PLINT_SCRATCH_RECONFIGURE") != "1":
        # scratch copy of the sources (checker self-test): same build flags,
        # paths rewritten to the copy
        base0 = compdb(REPO, work)
        base = {}
        for n, (p, fl) in base0.items():
            base[n] = (p.replace(REPO + "/", repo + "/"),
                       [f.replace("-I" + REPO + "/", "-I" + repo + "/") for f in fl])
    else:
        base = compdb(repo, work)
    units = dict(base)
    extra = {}
    if with_alternates:
        extra.update(ALTERNATES)
    if with_informational:
        extra.update(INFORMATIONAL)
    for alt, sib in extra.items():
        if alt in units:
            continue
        if sib not in base:
            # the build selected the alternate as default; then the sibling is the alternate
            cand = [k for k in base if k.split("-")[0] == sib.split("-")[0]]
            if not cand:
                raise AnalysisBroken("no sibling unit for %s in the compile database" % alt)
            sibflags = base[cand[0]][1]
        else:
            sibflags = base[sib][1]
        path = os.path.join(repo, "src", alt)
        if not os.path.exists(path):
            raise AnalysisBroken("alternate-model unit %s does not exist" % path)
        units[alt] = (path, list(sibflags))
    # the default siblings must also be present even when the build selected another model
    for alt, sib in ALTERNATES.items():
        if sib not in units and with_alternates:
            path = os.path.join(repo, "src", sib)
            if os.path.exists(path):
                anyflags = next(iter(base.values()))[1]
                units[sib] = (path, list(anyflags))
    return units


_headers_hash_cache = {}


def _headers_hash(repo, cfg):
    key = (repo, cfg)
    if key in _headers_hash_cache:
        return _headers_hash_cache[key]
    parts = []
    src = os.path.join(repo, "src")
    for f in sorted(os.listdir(src)):
        if f.endswith(".h"):
            parts.append(f)
            parts.append(_read(os.path.join(src, f)))
    ch = os.path.join(cfg, "src", "plibsysconfig.h")
    if os.path.exists(ch):
        parts.append(_read(ch))
    parts.append(_read(PFX) if os.path.exists(PFX) else b"nopfx")
    h = _sha(*parts)
    _headers_hash_cache[key] = h
    return h


def extract(name, path, flags, repo=None, work=None, extra_flags=()):
    """Run pfx (cached) and return the parsed facts of one unit."""
    repo = repo or REPO
    work = work or WORK
    cfg = os.path.join(work, "cfg")
    if not os.path.exists(PFX):
        raise AnalysisBroken("extractor %s not built (run make -C /verif/engine)" % PFX)
    flags = list(flags) + list(extra_flags)
    scratch = repo != REPO
    key = _sha(_read(path), " ".join(f.replace(repo, "@") for f in flags), _headers_hash(repo, cfg))
    maindir = os.path.join(work, "facts")
    cdir = os.path.join(work, "facts-st-%s" % os.environ.get("PLINT_SCRATCH_ID", os.getpid())) if scratch else maindir
    if scratch and not os.path.isdir(cdir) and "PLINT_SCRATCH_ID" not in os.environ:
        import atexit
        import shutil
        atexit.register(shutil.rmtree, cdir, True)     # the scratch cache is private to this process and disposable
    os.makedirs(cdir, exist_ok=True)
    cfile = os.path.join(cdir, "%s.%s.json" % (name, key[:24]))
    if scratch:
        mfile = os.path.join(maindir, "%s.%s.json" % (name, key[:24]))
        if os.path.exists(mfile):
            try:
                with open(mfile) as f:
                    return json.load(f)
            except (OSError, ValueError):
                pass
    if not os.path.exists(cfile):
        fd, tmp = tempfile.mkstemp(dir=cdir, suffix=".tmp")
        os.close(fd)
        cmd = [PFX, path, "-o", tmp, "--"] + flags + ["-resource-dir", resource_dir()]
        r = subprocess.run(cmd, stdout=subprocess.PIPE, stderr=subprocess.PIPE)
        err = r.stderr.decode(errors="replace")
        if r.returncode != 0 or " error: " in err or os.path.getsize(tmp) == 0:
            try:
                os.unlink(tmp)
            except OSError:
                pass
            raise AnalysisBroken("unit %s does not parse:\n%s" % (path, err[-1500:]))
        os.replace(tmp, cfile)
        # prune older cache entries of this unit
        for f in ([] if (scratch or extra_flags) else os.listdir(cdir)):
            if f.startswith(name + ".") and f.endswith(".json") and os.path.join(cdir, f) != cfile:
                try:
                    os.unlink(os.path.join(cdir, f))
                except OSError:
                    pass
    with open(cfile) as f:
        return json.load(f)


def load_units(names=None, repo=None, work=None, with_informational=True, extra_flags=None):
    """Extract the requested units (default: all) in parallel."""
    allu = all_units(repo, work, with_informational=with_informational)
    if names is None:
        names = sorted(allu)
    missing = [n for n in names if n not in allu]
    if missing:
        raise AnalysisBroken("units not part of the build: %s" % ", ".join(missing))
    extra_flags = extra_flags or {}

    def one(n):
        p, fl = allu[n]
        return n, extract(n, p, fl, repo, work, extra_flags.get(n, ()))

    out = {}
    with ThreadPoolExecutor(max_workers=min(16, max(1, len(names)))) as ex:
        for n, facts in ex.map(one, names):
            out[n] = facts
    return out, allu


if __name__ == "__main__":
    u, allu = load_units()
    print(len(u), "units extracted")
    for n in sorted(u):
        print(" ", n, len(u[n]["functions"]), "functions")
